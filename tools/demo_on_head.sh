#!/bin/bash
# demo_on_head.sh <seeded dir>: does the seeded change still break its demonstration on the CURRENT /repo HEAD
# (fix commits made after the change was produced may have neutralised it)? Scratch worktree under /tmp, removed afterwards.
export GOFLAGS=-mod=mod GOPROXY=off GOSUMDB=off GOTOOLCHAIN=local
d=$1; W=/tmp/demo_head_$$
git -C /repo worktree add --detach -q $W HEAD || exit 2
pk=$(python3 - "$d" <<'PY'
import sys,re,os,glob
d=sys.argv[1]
t=open(glob.glob(d+'/*_test.go')[0]).read()
pkg=re.search(r'^package (\w+)',t,re.M).group(1)
readme=open(d+'/README.txt').read()
cands=re.findall(r'((?:x|types|app)(?:/[A-Za-z_0-9]+)*)',readme)
base=pkg[:-5] if pkg.endswith('_test') else pkg
for c in cands:
    c=c.rstrip('/')
    if os.path.isdir('/repo/'+c) and (os.path.basename(c)==base or (base=='app' and c=='app')):
        print(c); break
PY
)
[ -z "$pk" ] && { echo "$(basename $d): cannot find package dir"; git -C /repo worktree remove --force $W; exit 2; }
cp $d/*_test.go $W/$pk/
clean=$(cd $W && go test -vet=off -count=1 -run 'Demo|ZZ' ./$pk/ 2>&1 | tail -1 | cut -c1-40)
git -C $W apply $d/patch.diff 2>/dev/null || { echo "$(basename $d): patch does not apply"; git -C /repo worktree remove --force $W; exit 2; }
patched=$(cd $W && go test -vet=off -count=1 -run 'Demo|ZZ' ./$pk/ 2>&1 | tail -1 | cut -c1-40)
echo "$(basename $d) pkg=$pk head=[$clean] head+patch=[$patched]"
git -C /repo worktree remove --force $W
