#!/bin/bash
# usage: replay_finding.sh <test file> <package dir relative to /repo> <-run pattern>
# runs an in-package test against /repo without writing into it (go test -overlay)
export GOFLAGS=-mod=mod GOPROXY=off GOSUMDB=off GOTOOLCHAIN=local
f=$1; pkg=$2; pat=$3; tmp=$(mktemp -d)
echo "{\"Replace\":{\"/repo/$pkg/$(basename $f)\":\"$f\"}}" > $tmp/ov.json
(cd /repo && go test -overlay $tmp/ov.json -vet=off -count=1 -timeout 300s -run "$pat" ./$pkg/ 2>&1 | tail -40)
rc=$?; rm -rf $tmp; exit $rc
