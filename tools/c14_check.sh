#!/bin/bash
# C14 (sign bytes injective) — BOUNDED stand-in, not a proof: runs the real GetSignBytes / sign-mode handlers of /repo's
# working tree over the finite message lattice of /verif/c14/zz_c14_signbytes_test.go (injected with go test -overlay).
# usage: c14_check.sh [quick|thorough]
tier=${1:-${VERIF_TIER:-quick}}; seed=${VERIF_SEED:-1}
export GOFLAGS=-mod=mod GOPROXY=off GOSUMDB=off GOTOOLCHAIN=local
V=${PVC_VERIF:-/verif}; R=${PVC_REPO:-/repo}
tmp=$(mktemp -d); trap 'rm -rf $tmp' EXIT
t0=$(date +%s.%N)
echo "{\"Replace\":{\"$R/app/zz_c14_signbytes_test.go\":\"$V/c14/zz_c14_signbytes_test.go\"}}" > $tmp/ov.json
(cd $R && C14_OUT=$tmp/out.json go test -tags verif -overlay $tmp/ov.json -vet=off -count=1 -timeout 900s -run TestC14SignBytesInjective ./app/ > $tmp/log.txt 2>&1)
rc=$?
python3 $V/tools/c14_post.py "$tier" "$seed" "$rc" $tmp/out.json $tmp/log.txt "$t0" "$V"
