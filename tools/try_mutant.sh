#!/bin/bash
# usage: try_mutant.sh <patch.diff> <id>...   applies the patch to /repo, runs the checks, reverts
p=$1; shift
if [ -n "$(git -C /repo status --porcelain)" ]; then echo "refusing: /repo has uncommitted changes"; exit 3; fi
git -C /repo apply $p || { echo "patch does not apply"; exit 2; }
for id in "$@"; do /verif/bin/pvc check $id 2>&1 | grep -E "VIOLATION|KNOWN|UNDECIDED|^property=" | cut -c1-260 | head -8; done
git -C /repo checkout -- . 
