#!/bin/bash
# usage: try_mutant.sh <patch.diff (absolute path)> <id>...   applies the patch to /repo, runs the checks, reverts.
# The evidence files are saved and restored: evidence committed under /verif must come from runs on the unchanged tree.
p=$1; shift
if [ -n "$(git -C /repo status --porcelain)" ]; then echo "refusing: /repo has uncommitted changes"; exit 3; fi
sav=$(mktemp -d); cp -a /verif/evidence/. $sav/
git -C /repo apply $p || { echo "patch does not apply"; rm -rf $sav; exit 2; }
for id in "$@"; do
  if [ "$id" = C14 ]; then /verif/tools/c14_check.sh quick 2>&1 | grep -E "VIOLATION|KNOWN|UNDECIDED|^property=" | cut -c1-260 | head -8
  else /verif/bin/pvc check $id 2>&1 | grep -E "VIOLATION|KNOWN|UNDECIDED|^property=" | cut -c1-260 | head -8; fi
done
git -C /repo checkout -- .
cp -a $sav/. /verif/evidence/; rm -rf $sav
