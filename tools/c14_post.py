import json, sys, os, time, hashlib
tier, seed, rc, outp, logp, t0, V = sys.argv[1], int(sys.argv[2]), int(sys.argv[3]), sys.argv[4], sys.argv[5], float(sys.argv[6]), sys.argv[7]
ev_path = os.path.join(V, 'evidence', 'C14.json')
known = [k for k in json.load(open(os.path.join(V, 'known_findings.json'))) if k.get('property') == 'C14']
def evidence(cov, viol, assumptions):
    ev = {"property_id": "C14", "tier": tier if tier in ("quick", "thorough") else "quick", "seed": seed, "level": "exploration",
          "coverage": cov, "assumptions": assumptions, "wall_s": time.time() - t0, "violations": viol}
    os.makedirs(os.path.dirname(ev_path), exist_ok=True)
    json.dump(ev, open(ev_path, 'w'), indent=1)
assumptions = ["BOUNDED stand-in, not a proof: only the messages of the stated lattice are compared; a collision outside it is not seen",
  "one fixed signer key, chain id, account number, sequence, fee and memo for every transaction (sign bytes of two messages are compared under identical signer data)",
  "single-message transactions only",
  "messages that fail ValidateBasic are excluded (the property quantifies over messages that pass stateless validation)",
  "a (mode, message type) for which the handler refuses to produce sign bytes (PNFT messages are not legacytx.LegacyMsg) has no sign bytes to collide"]
if rc != 0 or not os.path.exists(outp):
    # the stand-in could not run (does not compile against the current tree, or crashed): undecided, never an alarm
    log = open(logp).read()[-3000:] if os.path.exists(logp) else ''
    print("UNDECIDED property=C14 the bounded stand-in did not run to completion (go test exit %d)" % rc)
    print(log[-600:])
    evidence({"evaluations": 0, "distinct_nontrivial": 0, "rule": "stand-in did not run", "samples": ["none: " + log[-200:]], "exhaustive": False,
              "explanation": "go test of the injected stand-in failed; nothing was explored"}, 0, assumptions)
    sys.exit(3)
d = json.load(open(outp))
viol = 0
lines = []
os.makedirs(os.path.join(V, 'replays'), exist_ok=True)
for c in d.get('collisions') or []:
    cls = "collision:" + c['class']
    k = next((k for k in known if k.get('obligation') == cls and not str(k.get('status', '')).startswith('fixed')), None)
    if k:
        lines.append("KNOWN-FINDING: property=C14 %s: %s" % (cls, k.get('what', '')))
        continue
    viol += 1
    path = os.path.join(V, 'replays', 'C14_%s.txt' % hashlib.sha1(cls.encode()).hexdigest()[:8])
    with open(path, 'w') as f:
        f.write("property C14: two different messages share their sign bytes\nclass: %s\nsign mode: %s\nmessage A (%s): %s\nmessage B (%s): %s\n"
                "groups of this class in the lattice: %d\nreplay: build each message into a single-message tx with the fixed signer data of /verif/c14/zz_c14_signbytes_test.go and call txConfig.SignModeHandler().GetSignBytes(mode, ...): the bytes are equal\n"
                % (cls, c['mode'], c['a']['type'], c['a']['json'], c['b']['type'], c['b']['json'], c['count']))
    lines.append("VIOLATION property=C14 replay=%s %s" % (path, cls))
for nd in d.get('nondeterministic') or []:
    viol += 1
    path = os.path.join(V, 'replays', 'C14_nondet.txt')
    open(path, 'w').write("sign bytes differ between two computations of the same message: %s\n" % nd)
    lines.append("VIOLATION property=C14 replay=%s nondeterministic sign bytes %s" % (path, nd))
for l in lines:
    print(l)
cov = {"evaluations": d['evaluations'], "distinct_nontrivial": d['distinct'] * len(d['modes']),
       "rule": "all 14 custom message types; every exported field takes each value of a small pool (addresses {A,B}, fee payer {'',A,B}, names/ids two values, optional strings {'','x'}, byte fields {nil,'s1','s2'}, DID documents two shapes); full Cartesian product per type (%d generated), kept if ValidateBasic()==nil (%d), distinct by (type URL, protobuf bytes) (%d); for each enabled sign mode %s the real SignModeHandler().GetSignBytes is run twice per message (determinism) and the bytes are grouped by SHA-256; non-trivial = a distinct valid message for which the handler produced sign bytes" % (d['generated'], d['valid'], d['distinct'], d['modes']),
       "samples": d.get('samples') or [], "exhaustive": True,
       "explanation": "exhaustive over the stated finite lattice only; labelled bounded, never counted as proved",
       "valid_per_type": d['valid_per_type'], "modes": d['modes'], "handler_refusals": d.get('mode_errors') or {},
       "collision_classes": [c['class'] for c in d.get('collisions') or []]}
evidence(cov, viol, assumptions)
print("property=C14 tier=%s level=exploration(bounded) evaluations=%d distinct=%d modes=%d collisions=%d violations=%d" % (tier, d['evaluations'], d['distinct'], len(d['modes']), len(d.get('collisions') or []), viol))
sys.exit(1 if viol else 0)
