#!/bin/bash
# run_all.sh [tier] [extra pvc flags]: runs every check claimed in MANIFEST.json, one summary line per property
tier=${1:-quick}; shift
ids=$(python3 -c "import json;print(' '.join(c['property_id'] for c in json.load(open('/verif/MANIFEST.json'))['checks']))" 2>/dev/null)
rc=0
for id in $ids; do
  out=$(/verif/bin/pvc check $id --tier $tier "$@" 2>/dev/null); e=$?
  echo "$out" | grep -E "^(VIOLATION|VACUOUS|UNDECIDED|KNOWN-FINDING)" | cut -c1-260
  echo "exit=$e $(echo "$out" | grep '^property=')"
  [ $e -ne 0 ] && rc=1
done
exit $rc
