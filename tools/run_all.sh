#!/bin/bash
# run_all.sh [tier] [extra flags for pvc checks]: runs every check registered in MANIFEST.json, one summary line per property
tier=${1:-quick}; shift
rc=0
python3 -c "
import json
for c in json.load(open('/verif/MANIFEST.json'))['checks']:
    print(c['property_id'], c['quick_cmd' if '$tier'=='quick' else 'thorough_cmd'])" | while read id cmd; do
  extra=""; case "$cmd" in *pvc\ check*) extra="$@";; esac
  out=$(cd /verif && $cmd $extra 2>/dev/null); e=$?
  echo "$out" | grep -E "^(VIOLATION|VACUOUS|UNDECIDED|KNOWN-FINDING)" | cut -c1-200
  echo "exit=$e $(echo "$out" | grep '^property=')"
done
