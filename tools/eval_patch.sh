#!/bin/bash
# eval_patch.sh <name> <patch.diff> <id>...  : applies a patch to a private scratch worktree of /repo HEAD and runs the
# named checks on it against a private scratch copy of /verif; prints one JSON line. Removes its scratch directories.
name=$1; patch=$2; shift 2
R=$(mktemp -d /tmp/evr_XXXXXX); V=$(mktemp -d /tmp/evv_XXXXXX); rmdir $R
git -C /repo worktree add --detach -q $R HEAD
rsync -a --exclude .git --exclude evidence --exclude replays --exclude seeded /verif/ $V/; mkdir -p $V/evidence $V/replays
if ! git -C $R apply $patch 2>/dev/null; then echo "{\"name\":\"$name\",\"applies\":false}"; git -C /repo worktree remove --force $R; rm -rf $V; exit 0; fi
res=""
for id in "$@"; do
  if [ "$id" = C14 ]; then continue; fi
  o=$(PVC_REPO=$R PVC_VERIF=$V /verif/bin/pvc check $id 2>&1); e=$?
  nv=$(echo "$o" | grep -c "^VIOLATION"); nu=$(echo "$o" | grep -c "^UNDECIDED"); nvac=$(echo "$o" | grep -c "^VACUOUS")
  first=$(echo "$o" | grep "^VIOLATION" | head -3 | sed 's/.*obligation=//' | cut -c1-110 | tr '\n' ';' | tr -d '"')
  res="$res{\"check\":\"$id\",\"exit\":$e,\"violations\":$nv,\"undecided\":$nu,\"vacuous\":$nvac,\"first\":\"$first\"},"
done
echo "{\"name\":\"$name\",\"applies\":true,\"results\":[${res%,}]}"
git -C /repo worktree remove --force $R; rm -rf $V
