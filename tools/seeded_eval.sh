#!/bin/bash
# Evaluate seeded changes against the checks, on a scratch worktree of /repo HEAD and a scratch copy of /verif.
# usage: seeded_eval.sh <out.jsonl> <dir-with-mutants...>   each dir has patch.diff and meta (property id taken from path)
out=$1; shift
R=/tmp/repo_seed; V=/tmp/verif_seed
git -C /repo worktree remove --force $R 2>/dev/null; rm -rf $R $V
git -C /repo worktree add --detach -q $R HEAD
rsync -a --exclude .git --exclude evidence --exclude replays /verif/ $V/
: > $out
for d in "$@"; do
  [ -f $d/patch.diff ] || continue
  name=$(echo $d | sed 's|.*/mut_\(C[0-9]*\)_out/\(m[0-9]*\)|\1_\2|; s|.*/seeded/||')
  pid=${name%%_*}
  case $pid in
    C01|C02|C13) ids="C01 C02 C13 C08 C17";;
    C16) ids="C16 C17";;
    C18) ids="C18 C17 C08";;
    C03|C04|C05|C11) ids="C03 C04 C05 C11 C08 C16";;
    C06|C12) ids="C06 C12 C16 C17";;
    C07) ids="C07";;
    C08) ids="C08 C05 C18 C09";;
    C09) ids="C09 C08 C05 C01 C02 C13 C15";;
    C15) ids="C15 C09 C01 C02 C16 C20";;
    C17) ids="C17 C16 C02 C13";;
    *) ids="$pid";;
  esac
  git -C $R checkout -q -- . ; git -C $R clean -fdq
  if ! git -C $R apply $d/patch.diff 2>/dev/null; then echo "{\"mutant\":\"$name\",\"applies\":false}" >> $out; continue; fi
  res=""
  for id in $ids; do
    [ -f $V/ledger/$id.json ] || continue
    o=$(PVC_REPO=$R PVC_VERIF=$V /verif/bin/pvc check $id 2>&1)
    nv=$(echo "$o" | grep -c "^VIOLATION"); nu=$(echo "$o" | grep -c "^UNDECIDED"); nvac=$(echo "$o" | grep -c "^VACUOUS")
    first=$(echo "$o" | grep "^VIOLATION" | head -1 | sed 's/.*obligation=//' | cut -c1-120)
    res="$res{\"check\":\"$id\",\"violations\":$nv,\"undecided\":$nu,\"vacuous\":$nvac,\"first\":\"$first\"},"
  done
  echo "{\"mutant\":\"$name\",\"applies\":true,\"results\":[${res%,}]}" >> $out
done
git -C /repo worktree remove --force $R; rm -rf $V
