#!/bin/bash
# confirm each seeded change: patch applies, suite passes with it, demo fails with it and passes without
export GOFLAGS=-mod=mod GOPROXY=off GOSUMDB=off GOTOOLCHAIN=local
for d in ${@:-/tmp/mut_C*_out/m*}; do
  pid=$(echo $d | sed 's|/tmp/mut_\(C[0-9]*\)_out/.*|\1|'); m=$(basename $d); wt=/tmp/mut_$pid
  [ -f $d/patch.diff ] || continue
  demo=$(ls $d/*_test.go | head -1); pkgdir=$(grep -o 'x/[a-z/]*\|types/compkey' $d/README.txt | head -1)
  # find package dir from README: first line mentioning a directory that exists
  for c in $(grep -oE '(x|types)/[A-Za-z/_]+' $d/README.txt | sed 's|/zz_.*||;s|/$||' ); do if [ -d $wt/$c ]; then pkgdir=$c; break; fi; done
  git -C $wt checkout -q -- . ; git -C $wt clean -fdq
  cp $demo $wt/$pkgdir/
  clean=$(cd $wt && go test -vet=off -count=1 ./$pkgdir/ 2>&1 | tail -1 | cut -c1-60)
  git -C $wt apply $d/patch.diff || { echo "$pid/$m APPLY-FAIL"; continue; }
  withp=$(cd $wt && go test -vet=off -count=1 ./$pkgdir/ 2>&1 | tail -1 | cut -c1-60)
  rm $wt/$pkgdir/$(basename $demo)
  suite=$(cd $wt && go build ./... 2>&1 | head -1; go test -vet=off -count=1 ./types/... ./x/... 2>&1 | grep -c "^FAIL")
  git -C $wt checkout -q -- . ; git -C $wt clean -fdq
  echo "$pid/$m pkg=$pkgdir clean=[$clean] patched=[$withp] suite_fail_lines=$suite"
done
