package aol_test

// Replay of finding F11 (C09, C08) against the real code: two genesis keys that decode to the same composite key
// (bech32 is case-insensitive as a whole string; "01" and "1" parse to the same offset) are both accepted by
// GenesisState.Validate, and InitGenesis writes them in Go-map order: the last writer wins, so replicas that start
// from one genesis file can disagree.

import (
	"strings"
	"testing"

	sdk "github.com/cosmos/cosmos-sdk/types"
	"github.com/medibloc/panacea-core/v2/types/testsuite"
	"github.com/medibloc/panacea-core/v2/x/aol"
	"github.com/medibloc/panacea-core/v2/x/aol/types"
	"github.com/stretchr/testify/suite"
)

type f11Suite struct{ testsuite.TestSuite }

func TestF11GenesisDeterminism(t *testing.T) { suite.Run(t, new(f11Suite)) }

func (s *f11Suite) TestDuplicateKeysAfterDecoding() {
	owner := sdk.AccAddress(make([]byte, 20))
	lower := owner.String()
	upper := strings.ToUpper(lower)
	gs := types.DefaultGenesis()
	gs.Topics[lower+"/t"] = &types.Topic{Description: "lower"}
	gs.Topics[upper+"/t"] = &types.Topic{Description: "upper"}
	if err := gs.Validate(); err != nil {
		return // rejected by validation: nothing to disagree about
	}
	seen := map[string]bool{}
	for i := 0; i < 64; i++ {
		s.SetupTest()
		aol.InitGenesis(s.Ctx, s.AolKeeper, *gs)
		got := s.AolKeeper.GetTopic(s.Ctx, types.TopicCompositeKey{OwnerAddress: owner, TopicName: "t"})
		seen[got.Description] = true
	}
	if len(seen) > 1 {
		s.T().Errorf("the same genesis initialised different states on different runs: %v", seen)
	}
}
