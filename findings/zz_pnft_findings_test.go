package keeper_test

// Replays of findings F5, F6, F7 (C12) against the real x/pnft code, on a keeper built over an in-memory store.

import (
	"testing"

	"github.com/cosmos/cosmos-sdk/store/types"
	"github.com/cosmos/cosmos-sdk/testutil"
	sdk "github.com/cosmos/cosmos-sdk/types"
	authtypes "github.com/cosmos/cosmos-sdk/x/auth/types"
	"github.com/stretchr/testify/require"

	"github.com/medibloc/panacea-core/v2/app"
	"github.com/medibloc/panacea-core/v2/x/pnft/keeper"
	pnfttypes "github.com/medibloc/panacea-core/v2/x/pnft/types"
)

func newPNFT(t *testing.T) (sdk.Context, keeper.Keeper) {
	key := types.NewKVStoreKey(pnfttypes.StoreKey)
	ctx := testutil.DefaultContext(key, types.NewTransientStoreKey("t"))
	cdc := app.MakeEncodingConfig().Codec
	return ctx, keeper.NewKeeper(cdc, key, stubAK{}, nil)
}

type stubAK struct{}

func (stubAK) GetModuleAddress(string) sdk.AccAddress { return sdk.AccAddress("nft-module-account-x") }
func (stubAK) GetAccount(sdk.Context, sdk.AccAddress) authtypes.AccountI { return nil }

var (
	alice = sdk.AccAddress(make([]byte, 20)).String()
	bob   = sdk.AccAddress(append(make([]byte, 19), 1)).String()
)

// F5: DenomsByOwner must return only the denoms of the requested owner.
func TestF5DenomsByOwnerFilters(t *testing.T) {
	ctx, k := newPNFT(t)
	require.NoError(t, k.SaveDenom(ctx, &pnfttypes.Denom{Id: "a", Name: "n", Symbol: "s", Owner: alice}))
	require.NoError(t, k.SaveDenom(ctx, &pnfttypes.Denom{Id: "b", Name: "n", Symbol: "s", Owner: bob}))
	res, err := k.DenomsByOwner(sdk.WrapSDKContext(ctx), &pnfttypes.QueryDenomsByOwnerRequest{Owner: alice})
	require.NoError(t, err)
	for _, d := range res.Denoms {
		if d.Owner != alice {
			t.Errorf("DenomsByOwner(%s) returned denom %q owned by %s", alice, d.Id, d.Owner)
		}
	}
}

// F6: deleting a denom must not leave tokens whose denom is gone.
func TestF6DeleteDenomLeavesNoOrphans(t *testing.T) {
	ctx, k := newPNFT(t)
	require.NoError(t, k.SaveDenom(ctx, &pnfttypes.Denom{Id: "a", Name: "n", Symbol: "s", Owner: alice}))
	require.NoError(t, k.MintPNFT(ctx, &pnfttypes.Pnft{DenomId: "a", Id: "1", Name: "x", Creator: alice}))
	err := k.DeleteDenom(ctx, "a", alice)
	if err == nil {
		if p, gerr := k.GetPNFT(ctx, "a", "1"); gerr == nil {
			_, derr := k.GetDenom(ctx, "a")
			t.Errorf("denom deleted (GetDenom error: %v) but token %s/%s still exists", derr, p.DenomId, p.Id)
		}
	}
}

// F7: distinct (denom, token) pairs must not alias one another.
func TestF7IdentifiersDoNotAlias(t *testing.T) {
	ctx, k := newPNFT(t)
	mk := func(denom, id string) error {
		if err := (&pnfttypes.MsgCreateDenomRequest{Id: denom, Name: "n", Symbol: "s", Creator: alice}).ValidateBasic(); err != nil {
			return err
		}
		if err := (&pnfttypes.MsgMintPNFTRequest{DenomId: denom, Id: id, Name: "x", Creator: alice}).ValidateBasic(); err != nil {
			return err
		}
		if err := k.SaveDenom(ctx, &pnfttypes.Denom{Id: denom, Name: "n", Symbol: "s", Owner: alice}); err != nil {
			return err
		}
		return k.MintPNFT(ctx, &pnfttypes.Pnft{DenomId: denom, Id: id, Name: "x", Creator: alice})
	}
	if err := mk("a", "b\x00c"); err != nil {
		return // rejected: nothing to alias
	}
	if p, err := k.GetPNFT(ctx, "a\x00b", "c"); err == nil {
		t.Errorf("token (a, b\\x00c) is also visible as (a\\x00b, c): %+v", p.Id)
	}
}
