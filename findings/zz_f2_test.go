package keeper_test

// Replay of finding F2 (C17) against the real code: the single-item AOL queries build a composite key from an
// unvalidated topic name with compkey.MustEncode, which panics for a component longer than 255 bytes.

import (
	"strings"
	"testing"

	sdk "github.com/cosmos/cosmos-sdk/types"
	"github.com/medibloc/panacea-core/v2/types/testsuite"
	aoltypes "github.com/medibloc/panacea-core/v2/x/aol/types"
	"github.com/stretchr/testify/suite"
)

type f2Suite struct{ testsuite.TestSuite }

func TestF2QueriesMustNotPanic(t *testing.T) { suite.Run(t, new(f2Suite)) }

func (s *f2Suite) TestLongTopicName() {
	owner := sdk.AccAddress(make([]byte, 20)).String()
	long := strings.Repeat("a", 256)
	check := func(name string, f func() error) {
		defer func() {
			if r := recover(); r != nil {
				s.T().Errorf("%s query panicked on a 256-byte topic name: %v", name, r)
			}
		}()
		s.Require().Error(f())
	}
	ctx := sdk.WrapSDKContext(s.Ctx)
	check("Record", func() error {
		_, err := s.AolKeeper.Record(ctx, &aoltypes.QueryRecordRequest{OwnerAddress: owner, TopicName: long, Offset: 0})
		return err
	})
	check("Topic", func() error {
		_, err := s.AolKeeper.Topic(ctx, &aoltypes.QueryTopicRequest{OwnerAddress: owner, TopicName: long})
		return err
	})
	check("Writer", func() error {
		_, err := s.AolKeeper.Writer(ctx, &aoltypes.QueryWriterRequest{OwnerAddress: owner, TopicName: long, WriterAddress: owner})
		return err
	})
}
