package keeper_test

// Replay of finding F9 (C07) against the real code: with any locked (vesting) amount at the burn address,
// BurnCoins asks the bank for ALL balances, the send fails, nothing spendable is burned -- and because the failing
// bank send is not atomic outside a transaction, denominations sorting before the locked one are debited without
// being burned or credited: total supply != sum of balances.
// Keepers are built here over an in-memory store with the application's own encoding config (the repository's
// test harness does not register the vesting account types).

import (
	"testing"

	dbm "github.com/cometbft/cometbft-db"
	"github.com/cometbft/cometbft/libs/log"
	tmproto "github.com/cometbft/cometbft/proto/tendermint/types"
	"github.com/cosmos/cosmos-sdk/store"
	storetypes "github.com/cosmos/cosmos-sdk/store/types"
	sdk "github.com/cosmos/cosmos-sdk/types"
	authkeeper "github.com/cosmos/cosmos-sdk/x/auth/keeper"
	authtypes "github.com/cosmos/cosmos-sdk/x/auth/types"
	vestingtypes "github.com/cosmos/cosmos-sdk/x/auth/vesting/types"
	bankkeeper "github.com/cosmos/cosmos-sdk/x/bank/keeper"
	banktypes "github.com/cosmos/cosmos-sdk/x/bank/types"
	minttypes "github.com/cosmos/cosmos-sdk/x/mint/types"
	"github.com/stretchr/testify/require"

	"github.com/medibloc/panacea-core/v2/app"
	burnkeeper "github.com/medibloc/panacea-core/v2/x/burn/keeper"
	burntypes "github.com/medibloc/panacea-core/v2/x/burn/types"
)

func TestF9BurnWithLockedCoins(t *testing.T) {
	keys := sdk.NewKVStoreKeys(authtypes.StoreKey, banktypes.StoreKey)
	db := dbm.NewMemDB()
	ms := store.NewCommitMultiStore(db)
	for _, k := range keys {
		ms.MountStoreWithDB(k, storetypes.StoreTypeIAVL, db)
	}
	require.NoError(t, ms.LoadLatestVersion())
	ctx := sdk.NewContext(ms, tmproto.Header{}, false, log.NewNopLogger())
	cdc := app.MakeEncodingConfig().Codec
	maccPerms := map[string][]string{minttypes.ModuleName: {authtypes.Minter}, burntypes.ModuleName: {authtypes.Burner}}
	authority := authtypes.NewModuleAddress("gov").String()
	ak := authkeeper.NewAccountKeeper(cdc, keys[authtypes.StoreKey], authtypes.ProtoBaseAccount, maccPerms, "panacea", authority)
	require.NoError(t, ak.SetParams(ctx, authtypes.DefaultParams()))
	bk := bankkeeper.NewBaseKeeper(cdc, keys[banktypes.StoreKey], ak, map[string]bool{}, authority)
	require.NoError(t, bk.SetParams(ctx, banktypes.DefaultParams()))
	burnK := burnkeeper.NewKeeper(bk)

	burn := sdk.AccAddress(make([]byte, 20))
	lockedCoins := sdk.NewCoins(sdk.NewInt64Coin("zzz", 5))
	ak.SetAccount(ctx, vestingtypes.NewPermanentLockedAccount(authtypes.NewBaseAccountWithAddress(burn), lockedCoins))
	funds := sdk.NewCoins(sdk.NewInt64Coin("zzz", 5), sdk.NewInt64Coin("aaa", 3))
	require.NoError(t, bk.MintCoins(ctx, minttypes.ModuleName, funds))
	require.NoError(t, bk.SendCoinsFromModuleToAccount(ctx, minttypes.ModuleName, burn, funds))

	supplyBefore := bk.GetSupply(ctx, "aaa").Amount
	spendableBefore := bk.SpendableCoins(ctx, burn).AmountOf("aaa")
	require.Equal(t, int64(3), spendableBefore.Int64())

	_ = burnK.BurnCoins(ctx, burn.String())

	spendableAfter := bk.SpendableCoins(ctx, burn).AmountOf("aaa")
	supplyAfter := bk.GetSupply(ctx, "aaa").Amount
	if !spendableAfter.IsZero() {
		t.Errorf("spendable balance of the burn address is %s aaa after the burn, want 0", spendableAfter)
	}
	if !supplyBefore.Sub(supplyAfter).Equal(spendableBefore) {
		t.Errorf("supply of aaa shrank by %s, want %s", supplyBefore.Sub(supplyAfter), spendableBefore)
	}
	total := sdk.ZeroInt()
	bk.IterateAllBalances(ctx, func(_ sdk.AccAddress, c sdk.Coin) bool {
		if c.Denom == "aaa" {
			total = total.Add(c.Amount)
		}
		return false
	})
	if !total.Equal(supplyAfter) {
		t.Errorf("accounting identity broken for aaa: supply %s, sum of balances %s", supplyAfter, total)
	}
}
