package pnft_test

// Replay of finding F8 (C08) against the real x/pnft code: genesis export followed by import into a fresh store
// must reproduce every token with its current owner, whatever happened to the token or its denom after minting.

import (
	"testing"
	"time"

	"github.com/cosmos/cosmos-sdk/store/types"
	"github.com/cosmos/cosmos-sdk/testutil"
	sdk "github.com/cosmos/cosmos-sdk/types"
	authtypes "github.com/cosmos/cosmos-sdk/x/auth/types"
	"github.com/stretchr/testify/require"

	"github.com/medibloc/panacea-core/v2/app"
	"github.com/medibloc/panacea-core/v2/x/pnft"
	"github.com/medibloc/panacea-core/v2/x/pnft/keeper"
	pnfttypes "github.com/medibloc/panacea-core/v2/x/pnft/types"
)

type stubAK struct{}

func (stubAK) GetModuleAddress(string) sdk.AccAddress                      { return sdk.AccAddress("nft-module-account-x") }
func (stubAK) GetAccount(sdk.Context, sdk.AccAddress) authtypes.AccountI { return nil }

func newPNFT() (sdk.Context, keeper.Keeper) {
	key := types.NewKVStoreKey(pnfttypes.StoreKey)
	ctx := testutil.DefaultContext(key, types.NewTransientStoreKey("t"))
	return ctx, keeper.NewKeeper(app.MakeEncodingConfig().Codec, key, stubAK{}, nil)
}

var (
	alice = sdk.AccAddress(make([]byte, 20)).String()
	bob   = sdk.AccAddress(append(make([]byte, 19), 1)).String()
	carol = sdk.AccAddress(append(make([]byte, 19), 2)).String()
)

// a transferred token must come back with its current owner
func TestF8TransferredTokenKeepsOwner(t *testing.T) {
	ctx, k := newPNFT()
	require.NoError(t, k.SaveDenom(ctx, &pnfttypes.Denom{Id: "a", Name: "n", Symbol: "s", Owner: alice}))
	require.NoError(t, k.MintPNFT(ctx, &pnfttypes.Pnft{DenomId: "a", Id: "1", Name: "x", Creator: alice, CreatedAt: time.Unix(1700000000, 0).UTC()}))
	require.NoError(t, k.TransferPNFT(ctx, "a", "1", alice, bob))
	gs := pnft.ExportGenesis(ctx, &k)
	require.NoError(t, gs.ValidateBasic())

	ctx2, k2 := newPNFT()
	pnft.InitGenesis(ctx2, &k2, *gs)
	p, err := k2.GetPNFT(ctx2, "a", "1")
	require.NoError(t, err)
	if p.Owner != bob {
		t.Errorf("token a/1 was owned by %s before export, by %s after import", bob, p.Owner)
	}
	require.Equal(t, gs, pnft.ExportGenesis(ctx2, &k2), "export of the imported state differs")
}

// a denom handed over after minting must not make the import fail
func TestF8HandedOverDenomImports(t *testing.T) {
	ctx, k := newPNFT()
	require.NoError(t, k.SaveDenom(ctx, &pnfttypes.Denom{Id: "a", Name: "n", Symbol: "s", Owner: alice}))
	require.NoError(t, k.MintPNFT(ctx, &pnfttypes.Pnft{DenomId: "a", Id: "1", Name: "x", Creator: alice, CreatedAt: time.Unix(1700000000, 0).UTC()}))
	require.NoError(t, k.TransferDenomOwner(ctx, "a", alice, carol))
	gs := pnft.ExportGenesis(ctx, &k)
	require.NoError(t, gs.ValidateBasic())

	ctx2, k2 := newPNFT()
	func() {
		defer func() {
			if r := recover(); r != nil {
				t.Errorf("InitGenesis of an exported, validated genesis panicked: %v", r)
			}
		}()
		pnft.InitGenesis(ctx2, &k2, *gs)
	}()
}
