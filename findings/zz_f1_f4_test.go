package types

// Replay of findings F1 and F4 against the real code (run with go test -overlay, see /verif/tools/replay_finding.sh).
// F1 (C17): MsgCreateDIDRequest.ValidateBasic panics when the document sub-message is absent.
// F4 (C11): ValidateBasic accepts a message whose DID field differs from the id of the document it carries.

import (
	"testing"

	"github.com/cometbft/cometbft/crypto/secp256k1"
)

func TestF1NilDocumentMustNotPanic(t *testing.T) {
	defer func() {
		if r := recover(); r != nil {
			t.Fatalf("ValidateBasic panicked on a message without document: %v", r)
		}
	}()
	msg := MsgCreateDIDRequest{Did: "did:panacea:7Prd74ry1Uct87nZqL3ny7aR7Cg46JamVbJgk8azVgUm", Signature: []byte{1}, FromAddress: "panacea1d58s72gu0mjkw0lkgyvr0eqzz3mv74awfsjslz"}
	if err := msg.ValidateBasic(); err == nil {
		t.Fatalf("message without document accepted")
	}
	upd := MsgUpdateDIDRequest{Did: msg.Did, Signature: []byte{1}, FromAddress: msg.FromAddress}
	if err := upd.ValidateBasic(); err == nil {
		t.Fatalf("update without document accepted")
	}
}

func TestF4DidFieldMustMatchDocumentId(t *testing.T) {
	pk := secp256k1.GenPrivKey().PubKey().Bytes()
	d1 := NewDID(pk)
	d2 := NewDID(secp256k1.GenPrivKey().PubKey().Bytes())
	vmID := NewVerificationMethodID(d2, "key1")
	vm := NewVerificationMethod(vmID, ES256K_2019, d2, pk)
	doc := NewDIDDocument(d2, WithVerificationMethods([]*VerificationMethod{&vm}), WithAuthentications([]VerificationRelationship{NewVerificationRelationship(vmID)}))
	if !doc.Valid() {
		t.Fatalf("setup: document not valid")
	}
	msg := NewMsgCreateDIDResponse(d1, doc, vmID, []byte{1}, "panacea1d58s72gu0mjkw0lkgyvr0eqzz3mv74awfsjslz")
	if err := msg.ValidateBasic(); err == nil {
		t.Fatalf("create message with did=%s carrying a document about %s passed ValidateBasic", d1, d2)
	}
	upd := NewMsgUpdateDID(d1, doc, vmID, []byte{1}, "panacea1d58s72gu0mjkw0lkgyvr0eqzz3mv74awfsjslz")
	if err := upd.ValidateBasic(); err == nil {
		t.Fatalf("update message with did=%s carrying a document about %s passed ValidateBasic", d1, d2)
	}
}
