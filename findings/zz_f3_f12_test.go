package crypto

// Replays of findings F3 (C17) and F12 (C20) against the real key-store code.
// F3: a crafted key file makes decryptKey panic: dklen <= 0 (slice / makeslice), or an IV that is not 16 bytes
//     (cipher.NewCTR) -- the attacker who writes the file also chooses the MAC, so the MAC check does not protect.
// F12: LoadByAddress holds the read lock and calls Load -> load, which takes the read lock again; with a writer
//     queued in between (Save), Go's RWMutex blocks the second RLock: deadlock.

import (
	"encoding/hex"
	"encoding/json"
	"os"
	"path/filepath"
	"sync"
	"testing"
	"time"

	"golang.org/x/crypto/pbkdf2"
)

func craft(t *testing.T, dklen int, iv []byte, passwd string) encryptedKey {
	good, err := encryptKey("addr", []byte("0123456789abcdef0123456789abcdef"), passwd)
	if err != nil {
		t.Fatal(err)
	}
	good.Crypto.KDFParams.DKLen = dklen
	good.Crypto.CipherParams.IV = hex.EncodeToString(iv)
	// recompute a MAC that matches the (attacker chosen) parameters whenever that is possible
	if dklen >= macKeyOffset+macKeySize {
		salt, _ := hex.DecodeString(good.Crypto.KDFParams.Salt)
		ct, _ := hex.DecodeString(good.Crypto.CipherText)
		dk := pbkdf2.Key([]byte(passwd), salt, good.Crypto.KDFParams.C, dklen, pbkdf2PRF)
		mac, _ := newSHA3Keccak256(dk[macKeyOffset:macKeyOffset+macKeySize], ct)
		good.Crypto.MAC = hex.EncodeToString(mac)
	}
	return good
}

func TestF3CraftedKeyFileMustNotPanic(t *testing.T) {
	cases := []struct {
		name  string
		dklen int
		iv    []byte
	}{
		{"dklen=0", 0, make([]byte, 16)},
		{"dklen=-1", -1, make([]byte, 16)},
		{"iv of 3 bytes", 32, []byte{1, 2, 3}},
		{"empty iv", 32, nil},
	}
	dir := t.TempDir()
	ks, err := NewKeyStore(dir)
	if err != nil {
		t.Fatal(err)
	}
	for _, c := range cases {
		func() {
			defer func() {
				if r := recover(); r != nil {
					t.Errorf("%s: loading the key file panicked: %v", c.name, r)
				}
			}()
			k := craft(t, c.dklen, c.iv, "pw")
			bz, _ := json.Marshal(k)
			p := filepath.Join(dir, "crafted.json")
			if err := os.WriteFile(p, bz, 0o600); err != nil {
				t.Fatal(err)
			}
			if _, err := ks.Load(p, "pw"); err == nil {
				t.Errorf("%s: crafted key file accepted", c.name)
			}
		}()
	}
}

func TestF12KeyStoreDoesNotDeadlock(t *testing.T) {
	ks, err := NewKeyStore(t.TempDir())
	if err != nil {
		t.Fatal(err)
	}
	key := []byte("0123456789abcdef0123456789abcdef")
	if _, err := ks.Save("addr", key, "pw"); err != nil {
		t.Fatal(err)
	}
	var wg sync.WaitGroup
	done := make(chan struct{})
	for i := 0; i < 8; i++ {
		wg.Add(2)
		go func() {
			defer wg.Done()
			for j := 0; j < 40; j++ {
				_, _ = ks.LoadByAddress("addr", "pw")
			}
		}()
		go func() {
			defer wg.Done()
			for j := 0; j < 40; j++ {
				_, _ = ks.Save("addr", key, "pw")
			}
		}()
	}
	go func() { wg.Wait(); close(done) }()
	select {
	case <-done:
	case <-time.After(90 * time.Second):
		t.Fatalf("key store wedged: concurrent LoadByAddress/Save did not finish within 90s (recursive read lock)")
	}
}
