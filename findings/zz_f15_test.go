package types

// Replay of finding F15 (C18, C17) against the real code: RecordCompositeKey.FromByteSlices accepts an offset
// component of any length: 1..7 bytes panic, 0 bytes silently become offset 0, more than 8 bytes are truncated.

import (
	"testing"

	"github.com/medibloc/panacea-core/v2/types/compkey"
)

func TestF15RecordKeyOffsetLength(t *testing.T) {
	owner := make([]byte, 20)
	for _, n := range []int{0, 1, 7, 9, 16} {
		func() {
			defer func() {
				if r := recover(); r != nil {
					t.Errorf("offset component of %d bytes: panic %v", n, r)
				}
			}()
			var k RecordCompositeKey
			in := [][]byte{owner, []byte("topic"), make([]byte, n)}
			if err := k.FromByteSlices(in); err == nil {
				out := k.ByteSlices()
				if len(out[2]) != n {
					t.Errorf("offset component of %d bytes accepted and silently changed to %d bytes", n, len(out[2]))
				}
			}
		}()
	}
	// a malformed byte string offered to the decoder must be rejected with an error, not a panic
	func() {
		defer func() {
			if r := recover(); r != nil {
				t.Errorf("Decode panicked: %v", r)
			}
		}()
		bz := append([]byte{20}, owner...)
		bz = append(bz, 1, 'a', 3, 1, 2, 3)
		var k RecordCompositeKey
		if err := compkey.Decode(bz, &k); err == nil {
			t.Errorf("3-byte offset accepted by Decode")
		}
	}()
}
