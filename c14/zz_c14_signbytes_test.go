package app_test

// BOUNDED stand-in for property C14 (sign bytes are injective). Not a proof: the real GetSignBytes /
// sign-mode handlers are executed on every message of a stated finite lattice and the resulting bytes
// are compared pairwise. Injected with `go test -overlay` by /verif/tools/c14_check.sh; never written into /repo.

import (
	"crypto/sha256"
	"encoding/hex"
	"encoding/json"
	"fmt"
	"os"
	"reflect"
	"sort"
	"strings"
	"testing"

	"github.com/cosmos/cosmos-sdk/codec"
	"github.com/cosmos/cosmos-sdk/crypto/keys/secp256k1"
	sdk "github.com/cosmos/cosmos-sdk/types"
	"github.com/cosmos/cosmos-sdk/types/tx/signing"
	authsigning "github.com/cosmos/cosmos-sdk/x/auth/signing"

	"github.com/medibloc/panacea-core/v2/app"
	aoltypes "github.com/medibloc/panacea-core/v2/x/aol/types"
	didtypes "github.com/medibloc/panacea-core/v2/x/did/types"
	pnfttypes "github.com/medibloc/panacea-core/v2/x/pnft/types"
)

type c14Case struct {
	Type string `json:"type"`
	JSON string `json:"json"`
}

type c14Collision struct {
	Mode  string  `json:"mode"`
	Class string  `json:"class"`
	A     c14Case `json:"a"`
	B     c14Case `json:"b"`
	Count int     `json:"count"`
}

type item struct {
	msg sdk.Msg
	typ string
	js  string
}

type c14Report struct {
	Types         []string          `json:"types"`
	Generated     int               `json:"generated"`
	Valid         int               `json:"valid"`
	Distinct      int               `json:"distinct"`
	PerType       map[string]int    `json:"valid_per_type"`
	Modes         []string          `json:"modes"`
	ModeErrors    map[string]string `json:"mode_errors"`
	Evaluations   int               `json:"evaluations"`
	Collisions    []c14Collision    `json:"collisions"`
	NonDet        []string          `json:"nondeterministic"`
	Samples       []c14Case         `json:"samples"`
	PanicsInBasic int               `json:"validatebasic_panics"`
}

func c14Docs() []*didtypes.DIDDocument {
	did, _ := didtypes.ParseDID("did:panacea:7Prd74ry1Uct87nZqL3ny7aR7Cg46JamVbJgk8azVgUm")
	pubBz := secp256k1.GenPrivKeyFromSecret([]byte("c14-did")).PubKey().Bytes()
	vm := didtypes.NewVerificationMethod(didtypes.NewVerificationMethodID(did, "key1"), didtypes.ES256K_2019, did, pubBz)
	vm2 := didtypes.NewVerificationMethod(didtypes.NewVerificationMethodID(did, "key2"), didtypes.ES256K_2019, did, pubBz)
	auth := []didtypes.VerificationRelationship{didtypes.NewVerificationRelationship(vm.Id)}
	svc := didtypes.NewService("service1", "LinkedDomains", "https://example.org")
	a := didtypes.NewDIDDocument(did, didtypes.WithVerificationMethods([]*didtypes.VerificationMethod{&vm}), didtypes.WithAuthentications(auth))
	b := didtypes.NewDIDDocument(did, didtypes.WithVerificationMethods([]*didtypes.VerificationMethod{&vm, &vm2}), didtypes.WithAuthentications(auth), didtypes.WithServices([]*didtypes.Service{&svc}))
	docs := []*didtypes.DIDDocument{&a, &b}
	// controller variants of the first document: absent, empty list, lists of empty strings, a DID
	for _, c := range [][]string{{}, {""}, {"", ""}, {did}} {
		d := a
		cc := didtypes.JSONStringOrStrings(append([]string{}, c...))
		d.Controller = &cc
		docs = append(docs, &d)
	}
	return docs
}

// candidate values per field (by Go field name); every listed combination is generated
func c14Pool(typ reflect.Type, f reflect.StructField) []reflect.Value {
	addrA := sdk.AccAddress(make([]byte, 20)).String()
	addrB := sdk.AccAddress(append(make([]byte, 19), 1)).String()
	did := "did:panacea:7Prd74ry1Uct87nZqL3ny7aR7Cg46JamVbJgk8azVgUm"
	vs := func(xs ...interface{}) []reflect.Value {
		var out []reflect.Value
		for _, x := range xs {
			out = append(out, reflect.ValueOf(x))
		}
		return out
	}
	n := f.Name
	switch {
	case f.Type == reflect.TypeOf((*didtypes.DIDDocument)(nil)):
		var out []reflect.Value
		for _, d := range c14Docs() {
			out = append(out, reflect.ValueOf(d))
		}
		return out
	case f.Type.Kind() == reflect.Slice && f.Type.Elem().Kind() == reflect.Uint8:
		return []reflect.Value{reflect.Zero(f.Type), reflect.ValueOf([]byte("s1")), reflect.ValueOf([]byte("s2"))}
	case f.Type.Kind() != reflect.String:
		return []reflect.Value{reflect.Zero(f.Type)}
	case n == "FeePayerAddress":
		return vs("", addrA, addrB)
	case strings.HasSuffix(n, "Address") || n == "Creator" || n == "Updater" || n == "Remover" || n == "Sender" || n == "Receiver" || n == "Burner":
		return vs(addrA, addrB)
	case n == "Did":
		return vs(did)
	case n == "VerificationMethodId":
		return vs(did+"#key1", did+"#key2")
	case n == "TopicName":
		return vs("t1", "t2")
	case n == "Id" || n == "DenomId":
		return vs("i1", "i2")
	case n == "Name" || n == "Symbol":
		return vs("n1", "n2")
	case n == "Description" || n == "Moniker":
		return vs("", "x", " x")
	default: // Uri, UriHash, Data
		return vs("", "x")
	}
}

// c14DiffSig: the JSON leaf paths on which the given messages of one type differ, each with the set of values seen.
func c14DiffSig(members []item) string {
	vals := map[string]map[string]bool{}
	var walk func(prefix string, v interface{}, out map[string]string)
	walk = func(prefix string, v interface{}, out map[string]string) {
		switch x := v.(type) {
		case map[string]interface{}:
			for k, e := range x {
				walk(prefix+"."+k, e, out)
			}
		default:
			b, _ := json.Marshal(x)
			if len(b) > 48 {
				b = append(b[:48], '~')
			}
			out[prefix] = string(b)
		}
	}
	var flats []map[string]string
	for _, m := range members {
		var v interface{}
		_ = json.Unmarshal([]byte(m.js), &v)
		f := map[string]string{}
		walk("", v, f)
		flats = append(flats, f)
		for p := range f {
			if vals[p] == nil {
				vals[p] = map[string]bool{}
			}
		}
	}
	for p := range vals {
		for _, f := range flats {
			v, ok := f[p]
			if !ok {
				v = "<absent>"
			}
			vals[p][v] = true
		}
	}
	var parts []string
	for p, set := range vals {
		if len(set) < 2 {
			continue
		}
		var vs []string
		for v := range set {
			vs = append(vs, v)
		}
		sort.Strings(vs)
		parts = append(parts, strings.TrimPrefix(p, ".")+"="+strings.Join(vs, "|"))
	}
	sort.Strings(parts)
	return strings.Join(parts, ";")
}

func c14Messages() (all []sdk.Msg, generated int) {
	protos := []sdk.Msg{
		&aoltypes.MsgCreateTopicRequest{}, &aoltypes.MsgAddWriterRequest{}, &aoltypes.MsgDeleteWriterRequest{}, &aoltypes.MsgAddRecordRequest{},
		&didtypes.MsgCreateDIDRequest{}, &didtypes.MsgUpdateDIDRequest{}, &didtypes.MsgDeactivateDIDRequest{},
		&pnfttypes.MsgCreateDenomRequest{}, &pnfttypes.MsgUpdateDenomRequest{}, &pnfttypes.MsgDeleteDenomRequest{}, &pnfttypes.MsgTransferDenomRequest{},
		&pnfttypes.MsgMintPNFTRequest{}, &pnfttypes.MsgTransferPNFTRequest{}, &pnfttypes.MsgBurnPNFTRequest{},
	}
	for _, p := range protos {
		t := reflect.TypeOf(p).Elem()
		var pools [][]reflect.Value
		var idx []int
		for i := 0; i < t.NumField(); i++ {
			f := t.Field(i)
			if f.PkgPath != "" || strings.HasPrefix(f.Name, "XXX_") {
				continue
			}
			pools = append(pools, c14Pool(t, f))
			idx = append(idx, i)
		}
		var rec func(k int, cur reflect.Value)
		rec = func(k int, cur reflect.Value) {
			if k == len(pools) {
				cp := reflect.New(t)
				cp.Elem().Set(cur)
				all = append(all, cp.Interface().(sdk.Msg))
				generated++
				return
			}
			for _, v := range pools[k] {
				cur.Field(idx[k]).Set(v)
				rec(k+1, cur)
			}
		}
		rec(0, reflect.New(t).Elem())
	}
	return
}

func TestC14SignBytesInjective(t *testing.T) {
	out := os.Getenv("C14_OUT")
	if out == "" {
		t.Skip("C14_OUT not set")
	}
	enc := app.MakeEncodingConfig()
	txCfg := enc.TxConfig
	rep := c14Report{PerType: map[string]int{}, ModeErrors: map[string]string{}}
	msgs, gen := c14Messages()
	rep.Generated = gen
	// keep the messages that pass stateless validation; distinct by (type, proto bytes)
	seen := map[string]bool{}
	var items []item
	for _, m := range msgs {
		// identity of the message as it arrives (before stateless validation, which the node runs before it
		// computes sign bytes and which must not change what is signed)
		typ := sdk.MsgTypeURL(m)
		bz0, err := enc.Codec.Marshal(m.(codec.ProtoMarshaler))
		if err != nil {
			t.Fatalf("marshal %s: %v", typ, err)
		}
		js0, _ := enc.Codec.MarshalJSON(m.(codec.ProtoMarshaler))
		ok := func() (ok bool) {
			defer func() {
				if r := recover(); r != nil {
					rep.PanicsInBasic++
					ok = false
				}
			}()
			return m.ValidateBasic() == nil
		}()
		if !ok {
			continue
		}
		rep.Valid++
		k := typ + "|" + hex.EncodeToString(bz0)
		if seen[k] {
			continue
		}
		seen[k] = true
		js := js0
		items = append(items, item{m, typ, string(js)})
		rep.PerType[typ]++
	}
	rep.Distinct = len(items)
	for ty := range rep.PerType {
		rep.Types = append(rep.Types, ty)
	}
	sort.Strings(rep.Types)
	for i := 0; i < len(items) && len(rep.Samples) < 6; i += len(items)/6 + 1 {
		rep.Samples = append(rep.Samples, c14Case{items[i].typ, items[i].js})
	}

	priv := secp256k1.GenPrivKeyFromSecret([]byte("c14"))
	pub := priv.PubKey()
	signer := sdk.AccAddress(pub.Address())
	for _, mode := range txCfg.SignModeHandler().Modes() {
		mname := mode.String()
		byHash := map[string][]item{}
		modeOK := true
		for _, it := range items {
			sb := func() (res []byte) {
				defer func() {
					if r := recover(); r != nil {
						// the handler refuses this message type in this mode (e.g. not a LegacyMsg): no sign bytes exist
						rep.ModeErrors[mname+" "+it.typ] = fmt.Sprint("panic: ", r)
						res = nil
					}
				}()
				txb := txCfg.NewTxBuilder()
				if err := txb.SetMsgs(it.msg); err != nil {
					t.Fatalf("SetMsgs: %v", err)
				}
				txb.SetGasLimit(200000)
				txb.SetFeeAmount(sdk.NewCoins(sdk.NewInt64Coin("umed", 1000000)))
				txb.SetMemo("m")
				sig := signing.SignatureV2{PubKey: pub, Data: &signing.SingleSignatureData{SignMode: mode}, Sequence: 7}
				if err := txb.SetSignatures(sig); err != nil {
					t.Fatalf("SetSignatures: %v", err)
				}
				sd := authsigning.SignerData{Address: signer.String(), ChainID: "c14-chain", AccountNumber: 3, Sequence: 7, PubKey: pub}
				bz, err := txCfg.SignModeHandler().GetSignBytes(mode, sd, txb.GetTx())
				if err != nil {
					if modeOK {
						rep.ModeErrors[mname] = err.Error()
					}
					modeOK = false
					return nil
				}
				return bz
			}
			b1 := sb()
			if !modeOK {
				break
			}
			if b1 == nil {
				continue
			}
			b2 := sb()
			rep.Evaluations += 2
			if string(b1) != string(b2) {
				rep.NonDet = append(rep.NonDet, mname+" "+it.typ)
			}
			h := sha256.Sum256(b1)
			hk := string(h[:])
			if len(byHash[hk]) < 64 {
				byHash[hk] = append(byHash[hk], it)
			}
		}
		classes := map[string]*c14Collision{}
		for _, grp := range byHash {
			if len(grp) < 2 {
				continue
			}
			// class of a collision: the sign mode and the set of message types that share these bytes
			byType := map[string][]item{}
			for _, it := range grp {
				byType[it.typ] = append(byType[it.typ], it)
			}
			var tys []string
			for ty, members := range byType {
				if len(members) > 1 {
					// same-type collision: name the fields in which the colliding messages differ, with their values
					ty += "{" + c14DiffSig(members) + "}"
				}
				tys = append(tys, ty)
			}
			sort.Strings(tys)
			sort.Slice(grp, func(i, j int) bool { return grp[i].typ+grp[i].js < grp[j].typ+grp[j].js })
			ck := mname + ":" + strings.Join(tys, "+")
			if c := classes[ck]; c != nil {
				c.Count++
			} else {
				classes[ck] = &c14Collision{Mode: mname, Class: ck, A: c14Case{grp[0].typ, grp[0].js}, B: c14Case{grp[len(grp)-1].typ, grp[len(grp)-1].js}, Count: 1}
			}
		}
		if modeOK {
			rep.Modes = append(rep.Modes, mname)
		}
		var keys []string
		for k := range classes {
			keys = append(keys, k)
		}
		sort.Strings(keys)
		for _, k := range keys {
			rep.Collisions = append(rep.Collisions, *classes[k])
		}
	}
	data, _ := json.MarshalIndent(rep, "", " ")
	if err := os.WriteFile(out, data, 0o644); err != nil {
		t.Fatal(err)
	}
	fmt.Printf("C14 generated=%d valid=%d distinct=%d modes=%v collisions=%d\n", rep.Generated, rep.Valid, rep.Distinct, rep.Modes, len(rep.Collisions))
}
