package main

// Parser for the contract expression language (Gobra-flavoured, Go-like).

import (
	"fmt"
	"strings"
	"unicode"
)

type Expr interface{}

type (
	EIdent struct{ Name string }
	EInt   struct{ V string }
	EStr   struct{ V string }
	EBool  struct{ V bool }
	ENil   struct{}
	EUn    struct {
		Op string
		X  Expr
	}
	EBin struct {
		Op   string
		L, R Expr
	}
	ECall struct {
		Fn   string
		Recv Expr // method-style spec call x.f(args) (nil for plain calls)
		Args []Expr
	}
	EIndex struct{ X, I Expr }
	ESlice struct{ X, Lo, Hi Expr }
	EUpd   struct{ X, I, V Expr }
	EField struct {
		X    Expr
		Name string
	}
	EQuant struct {
		Forall bool
		Vars   []QVar
		Trig   [][]Expr
		Body   Expr
	}
	EOld  struct{ X Expr }
	EIte  struct{ C, A, B Expr }
	ELit  struct { // composite literal T{f: v, ...}
		Type   string
		Fields []string
		Vals   []Expr
	}
	ETypeIs struct { // typeof(x) == T  written  x.(type T)
		X    Expr
		Type string
	}
	EAssert struct { // x.(T)
		X    Expr
		Type string
	}
)

type QVar struct {
	Name string
	Type string
}

type tok struct {
	k   string // id int str op eof
	v   string
	pos int
}

type lexer struct {
	src  string
	toks []tok
	p    int
}

func lex(src string) ([]tok, error) {
	var toks []tok
	i := 0
	ops := []string{"<==>", "==>", "::", ":=", "==", "!=", "<=", ">=", "&&", "||", "..."}
	for i < len(src) {
		c := rune(src[i])
		switch {
		case unicode.IsSpace(c):
			i++
		case unicode.IsLetter(c) || c == '_' || c == '$':
			j := i + 1
			for j < len(src) && (unicode.IsLetter(rune(src[j])) || unicode.IsDigit(rune(src[j])) || src[j] == '_' || src[j] == '$') {
				j++
			}
			toks = append(toks, tok{"id", src[i:j], i})
			i = j
		case unicode.IsDigit(c):
			j := i + 1
			for j < len(src) && (unicode.IsDigit(rune(src[j])) || src[j] == 'x' || (src[j] >= 'a' && src[j] <= 'f') || (src[j] >= 'A' && src[j] <= 'F')) {
				j++
			}
			toks = append(toks, tok{"int", src[i:j], i})
			i = j
		case c == '"':
			j := i + 1
			var b strings.Builder
			for j < len(src) && src[j] != '"' {
				if src[j] == '\\' && j+1 < len(src) {
					j++
					switch src[j] {
					case 'n':
						b.WriteByte('\n')
					case 't':
						b.WriteByte('\t')
					case '0':
						b.WriteByte(0)
					case 'x':
						var v int
						fmt.Sscanf(src[j+1:j+3], "%02x", &v)
						b.WriteByte(byte(v))
						j += 2
					default:
						b.WriteByte(src[j])
					}
				} else {
					b.WriteByte(src[j])
				}
				j++
			}
			if j >= len(src) {
				return nil, fmt.Errorf("unterminated string at %d", i)
			}
			toks = append(toks, tok{"str", b.String(), i})
			i = j + 1
		default:
			matched := false
			for _, op := range ops {
				if strings.HasPrefix(src[i:], op) {
					toks = append(toks, tok{"op", op, i})
					i += len(op)
					matched = true
					break
				}
			}
			if !matched {
				toks = append(toks, tok{"op", string(c), i})
				i++
			}
		}
	}
	toks = append(toks, tok{"eof", "", len(src)})
	return toks, nil
}

type parser struct {
	toks []tok
	p    int
	src  string
}

func ParseExpr(src string) (e Expr, err error) {
	toks, err := lex(src)
	if err != nil {
		return nil, err
	}
	ps := &parser{toks: toks, src: src}
	defer func() {
		if r := recover(); r != nil {
			err = fmt.Errorf("parse error in %q: %v", src, r)
		}
	}()
	e = ps.expr(0)
	if ps.peek().k != "eof" {
		panic(fmt.Sprintf("unexpected %q at %d", ps.peek().v, ps.peek().pos))
	}
	return e, nil
}

func (ps *parser) peek() tok { return ps.toks[ps.p] }
func (ps *parser) next() tok { t := ps.toks[ps.p]; ps.p++; return t }
func (ps *parser) isOp(v string) bool {
	t := ps.peek()
	return t.k == "op" && t.v == v
}
func (ps *parser) expect(v string) {
	t := ps.next()
	if t.v != v {
		panic(fmt.Sprintf("expected %q, got %q at %d", v, t.v, t.pos))
	}
}

var binPrec = map[string]int{
	"<==>": 1, "==>": 2, "||": 3, "&&": 4,
	"==": 5, "!=": 5, "<": 5, "<=": 5, ">": 5, ">=": 5,
	"+": 6, "-": 6, "*": 7, "/": 7, "%": 7,
}

func (ps *parser) expr(minPrec int) Expr {
	lhs := ps.unary()
	for {
		t := ps.peek()
		if t.k != "op" {
			// "in" is not supported; stop
			break
		}
		prec, ok := binPrec[t.v]
		if !ok || prec < minPrec {
			break
		}
		ps.next()
		var rhs Expr
		if t.v == "==>" || t.v == "<==>" {
			rhs = ps.expr(prec) // right assoc
		} else {
			rhs = ps.expr(prec + 1)
		}
		lhs = &EBin{Op: t.v, L: lhs, R: rhs}
	}
	return lhs
}

func (ps *parser) unary() Expr {
	t := ps.peek()
	if t.k == "op" && (t.v == "!" || t.v == "-") {
		ps.next()
		return &EUn{Op: t.v, X: ps.unary()}
	}
	if t.k == "id" && (t.v == "forall" || t.v == "exists") {
		return ps.quant()
	}
	return ps.postfix(ps.primary())
}

// typeText collects raw tokens of a type expression until one of the stop tokens at depth 0.
func (ps *parser) typeText(stops ...string) string {
	depth := 0
	start := ps.peek().pos
	end := start
	for {
		t := ps.peek()
		if t.k == "eof" {
			break
		}
		if depth == 0 {
			stop := false
			for _, s := range stops {
				if t.v == s && (t.k == "op" || t.k == "id") {
					stop = true
				}
			}
			if stop {
				break
			}
		}
		if t.v == "[" || t.v == "(" {
			depth++
		}
		if t.v == "]" || t.v == ")" {
			depth--
		}
		ps.next()
		end = t.pos + len(t.v)
		if t.k == "str" {
			end = t.pos + len(t.v) + 2
		}
	}
	return strings.TrimSpace(ps.src[start:end])
}

func (ps *parser) quant() Expr {
	q := &EQuant{Forall: ps.next().v == "forall"}
	for {
		name := ps.next()
		if name.k != "id" {
			panic("quantifier variable expected")
		}
		ty := ps.typeText(",", "::")
		q.Vars = append(q.Vars, QVar{name.v, ty})
		if ps.isOp(",") {
			ps.next()
			continue
		}
		break
	}
	ps.expect("::")
	for ps.isOp("{") {
		ps.next()
		var tr []Expr
		for {
			tr = append(tr, ps.expr(0))
			if ps.isOp(",") {
				ps.next()
				continue
			}
			break
		}
		ps.expect("}")
		q.Trig = append(q.Trig, tr)
	}
	q.Body = ps.expr(0)
	// types may be shared: "i, j int" -> fill from the right
	for i := len(q.Vars) - 2; i >= 0; i-- {
		if q.Vars[i].Type == "" {
			q.Vars[i].Type = q.Vars[i+1].Type
		}
	}
	return q
}

func (ps *parser) primary() Expr {
	t := ps.next()
	switch t.k {
	case "int":
		return &EInt{t.v}
	case "str":
		return &EStr{t.v}
	case "id":
		switch t.v {
		case "true":
			return &EBool{true}
		case "false":
			return &EBool{false}
		case "nil":
			return &ENil{}
		case "old":
			ps.expect("(")
			e := ps.expr(0)
			ps.expect(")")
			return &EOld{e}
		case "if":
			c := ps.expr(0)
			if ps.peek().v != "then" {
				panic("expected then")
			}
			ps.next()
			a := ps.expr(0)
			if ps.peek().v != "else" {
				panic("expected else")
			}
			ps.next()
			b := ps.expr(0)
			return &EIte{c, a, b}
		}
		// qualified identifiers a.B are handled in postfix as fields; composite literal T{...}
		return &EIdent{t.v}
	case "op":
		if t.v == "(" {
			e := ps.expr(0)
			ps.expect(")")
			return e
		}
	}
	panic(fmt.Sprintf("unexpected token %q at %d", t.v, t.pos))
}

func exprTypeName(e Expr) (string, bool) {
	switch x := e.(type) {
	case *EIdent:
		return x.Name, true
	case *EField:
		if s, ok := exprTypeName(x.X); ok {
			return s + "." + x.Name, true
		}
	}
	return "", false
}

func (ps *parser) postfix(e Expr) Expr {
	for {
		t := ps.peek()
		if t.k != "op" {
			return e
		}
		switch t.v {
		case ".":
			ps.next()
			if ps.isOp("(") { // type assertion x.(T) or x.(type T)
				ps.next()
				isTest := false
				if ps.peek().k == "id" && ps.peek().v == "type" {
					ps.next()
					isTest = true
				}
				ty := ps.typeText(")")
				ps.expect(")")
				if isTest {
					e = &ETypeIs{e, ty}
				} else {
					e = &EAssert{e, ty}
				}
				continue
			}
			n := ps.next()
			if n.k != "id" {
				panic("field name expected")
			}
			e = &EField{e, n.v}
		case "(":
			ps.next()
			var args []Expr
			if !ps.isOp(")") {
				for {
					args = append(args, ps.expr(0))
					if ps.isOp(",") {
						ps.next()
						continue
					}
					break
				}
			}
			ps.expect(")")
			switch f := e.(type) {
			case *EIdent:
				e = &ECall{Fn: f.Name, Args: args}
			case *EField:
				e = &ECall{Fn: f.Name, Recv: f.X, Args: args}
			default:
				panic("call of non-identifier")
			}
		case "[":
			ps.next()
			if ps.isOp(":") { // x[:hi]
				ps.next()
				hi := ps.expr(0)
				ps.expect("]")
				e = &ESlice{e, nil, hi}
				continue
			}
			i := ps.expr(0)
			if ps.isOp(":=") {
				ps.next()
				v := ps.expr(0)
				ps.expect("]")
				e = &EUpd{e, i, v}
			} else if ps.isOp(":") {
				ps.next()
				var hi Expr
				if !ps.isOp("]") {
					hi = ps.expr(0)
				}
				ps.expect("]")
				e = &ESlice{e, i, hi}
			} else {
				ps.expect("]")
				e = &EIndex{e, i}
			}
		case "{":
			// composite literal only if e is a type name starting with upper-case last component or qualified
			tn, ok := exprTypeName(e)
			if !ok {
				return e
			}
			last := tn
			if i := strings.LastIndex(tn, "."); i >= 0 {
				last = tn[i+1:]
			}
			if last == "" || !unicode.IsUpper(rune(last[0])) {
				return e
			}
			ps.next()
			lit := &ELit{Type: tn}
			for !ps.isOp("}") {
				fn := ps.next()
				ps.expect(":")
				lit.Fields = append(lit.Fields, fn.v)
				lit.Vals = append(lit.Vals, ps.expr(0))
				if ps.isOp(",") {
					ps.next()
				}
			}
			ps.expect("}")
			e = lit
		default:
			return e
		}
	}
}
