package main

import (
	"flag"
	"fmt"
	"os"
	"sort"
	"strings"
	"sync"
)

var (
	repoDir  = "/repo"
	verifDir = "/verif"
)

func main() {
	if len(os.Args) < 2 {
		fmt.Fprintln(os.Stderr, "usage: pvc check <id> [--tier quick|thorough] | pvc vc <pattern> <funcKey>... | pvc replay <path>")
		os.Exit(2)
	}
	if d := os.Getenv("PVC_REPO"); d != "" {
		repoDir = d
	}
	if d := os.Getenv("PVC_VERIF"); d != "" {
		verifDir = d
	}
	switch os.Args[1] {
	case "vc":
		cmdVC(os.Args[2:])
	case "check":
		os.Exit(cmdCheck(os.Args[2:]))
	case "replay":
		os.Exit(cmdReplay(os.Args[2:]))
	case "selftest":
		os.Exit(cmdSelftest(os.Args[2:]))
	default:
		fmt.Fprintln(os.Stderr, "unknown command", os.Args[1])
		os.Exit(2)
	}
}

type oblResult struct {
	o   *Obl
	res SolveResult
	ft  *FT
}

// runObligations discharges all obligations of the given translations in parallel.
func runObligations(fts []*FT, dir string, timeoutS int, filter func(*Obl) bool, par int) []oblResult {
	type job struct {
		ft  *FT
		o   *Obl
		q   string
		axs []axTerm
	}
	var jobs []job
	for _, ft := range fts {
		axs := ft.axiomTerms(ft.axUpTo)
		for _, o := range ft.obls {
			if filter != nil && !filter(o) {
				continue
			}
			q := ft.BuildQuery(o, axs)
			if d := os.Getenv("PVC_DUMPOBL"); d != "" && strings.Contains(o.Name, d) {
				os.WriteFile("/tmp/dump_"+mangle(shortKey(o.Name))+".smt2", []byte(q), 0o644)
			}
			jobs = append(jobs, job{ft, o, q, axs})
		}
	}
	out := make([]oblResult, len(jobs))
	var wg sync.WaitGroup
	sem := make(chan bool, par)
	for i, j := range jobs {
		wg.Add(1)
		sem <- true
		go func(i int, j job) {
			defer wg.Done()
			defer func() { <-sem }()
			if len(j.q) > 1500000 {
				out[i] = oblResult{j.o, SolveResult{Status: "error", Output: "query too large", Size: len(j.q)}, j.ft}
				return
			}
			// stage 1: sliced query, short timeout; stage 2: full query (solver heuristics are chaotic, so both are tried)
			t1 := timeoutS / 3
			if t1 < 3 {
				t1 = 3
			}
			r := Solve(j.q, dir, j.o.Name, t1, false)
			if r.Status != "unsat" && os.Getenv("PVC_NOSLICE") == "" {
				full := j.ft.buildQueryOpt(j.o, j.axs, false)
				r2 := Solve(full, dir, j.o.Name+"_full", timeoutS, false)
				for k, v := range r.All {
					r2.All["sliced:"+k] = v
				}
				r2.Secs += r.Secs
				r = r2
				if r.Status != "unsat" {
					// stage 3: other seeds/configurations on the sliced query
					r3 := solveWith(seedSolvers, j.q, dir, j.o.Name+"_seeds", timeoutS, false)
					for k, v := range r.All {
						r3.All[k] = v
					}
					r3.Secs += r.Secs
					if r3.Status == "unsat" || r.Status != "sat" {
						r = r3
					}
				}
			}
			out[i] = oblResult{j.o, r, j.ft}
		}(i, j)
	}
	wg.Wait()
	// stage 4 (robustness against a loaded machine): an obligation that no back end decided - neither proved nor
	// refuted - is tried once more with twice the time, a few at a time, after everything else has finished.
	// Only when few are left: a change that really breaks a contract fails for good and is not worth minutes of retries.
	var again []int
	for i, r := range out {
		if r.res.Status != "unsat" && r.res.Status != "sat" && r.res.Status != "error" && os.Getenv("PVC_NORETRY") == "" {
			again = append(again, i)
		}
	}
	if len(again) > 0 && len(again) <= 4 {
		sem2 := make(chan bool, 4)
		var wg2 sync.WaitGroup
		for _, i := range again {
			wg2.Add(1)
			sem2 <- true
			go func(i int) {
				defer wg2.Done()
				defer func() { <-sem2 }()
				j := jobs[i]
				r := Solve(j.q, dir, j.o.Name+"_retry", timeoutS*2, false)
				if r.Status == "unsat" {
					for k, v := range out[i].res.All {
						r.All["first:"+k] = v
					}
					r.Secs += out[i].res.Secs
					out[i] = oblResult{j.o, r, j.ft}
				}
			}(i)
		}
		wg2.Wait()
	}
	return out
}

func cmdVC(args []string) {
	fs := flag.NewFlagSet("vc", flag.ExitOnError)
	timeout := fs.Int("t", 10, "timeout seconds")
	keep := fs.String("dir", "", "directory for smt2 files")
	verbose := fs.Bool("v", false, "verbose")
	dump := fs.String("dump", "", "print query of obligation whose name contains this")
	fs.Parse(args)
	rest := fs.Args()
	if len(rest) < 2 {
		fmt.Fprintln(os.Stderr, "usage: pvc vc [-t N] <pkg pattern> <funcKey|lemmas>...")
		os.Exit(2)
	}
	g, err := LoadGen(repoDir, verifDir, strings.Split(rest[0], ","), nil)
	if err != nil {
		fmt.Fprintln(os.Stderr, err)
		os.Exit(2)
	}
	dir := *keep
	if dir == "" {
		dir, _ = os.MkdirTemp("", "pvc")
		defer os.RemoveAll(dir)
	} else {
		os.MkdirAll(dir, 0o755)
	}
	var fts []*FT
	for _, key := range rest[1:] {
		if key == "lemmas" {
			fts = append(fts, g.LemmaFT(nil)...)
			continue
		}
		k := key
		if !strings.Contains(k, "/") {
			k = repoPrefix + "/" + k
		} else if !strings.HasPrefix(k, "github.com") && !strings.HasPrefix(k, "(") {
			k = repoPrefix + "/" + k
		}
		k = strings.Replace(k, "(*", "(*"+repoPrefix+"/", 1)
		if strings.HasPrefix(key, "(") && !strings.HasPrefix(key, "(*") {
			k = "(" + repoPrefix + "/" + key[1:]
		}
		if strings.HasPrefix(key, "(*") {
			k = "(*" + repoPrefix + "/" + key[2:]
		}
		if strings.HasPrefix(strings.TrimLeft(key, "(*"), "github.com/") {
			k = key // full import path given
		}
		ck := k
		if i := strings.Index(key, "@"); i >= 0 {
			ck = fullKey(key)
			k = ck[:strings.Index(ck, "@")]
		}
		fn := g.FindFunc(k)
		if fn == nil {
			fmt.Fprintln(os.Stderr, "function not found:", k)
			var cands []string
			for n := range g.funcIndex {
				if strings.Contains(n, key[strings.LastIndex(key, ".")+1:]) && strings.HasPrefix(strings.TrimLeft(n, "(*"), repoPrefix) {
					cands = append(cands, n)
				}
			}
			sort.Strings(cands)
			for _, c := range cands {
				fmt.Fprintln(os.Stderr, "   candidate:", c)
			}
			os.Exit(2)
		}
		ft := g.TranslateFunction(fn, g.db.Contracts[ck])
		fts = append(fts, ft)
	}
	for _, ft := range fts {
		for _, u := range ft.unsupp {
			fmt.Println("UNSUPPORTED:", u)
		}
		if *verbose {
			fmt.Println("havoced externals:", sortedStrs(ft.havoced))
			fmt.Println("assumed contracts:", sortedStrs(ft.assumed))
			fmt.Println("inlined:", sortedStrs(ft.inlined))
		}
	}
	if *dump != "" {
		for _, ft := range fts {
			axs := ft.axiomTerms(nil)
			for _, o := range ft.obls {
				if strings.Contains(o.Name, *dump) {
					fmt.Println(ft.BuildQuery(o, axs))
					return
				}
			}
		}
	}
	res := runObligations(fts, dir, *timeout, nil, 4)
	ok := 0
	for _, r := range res {
		mark := "FAIL"
		if r.res.Status == "unsat" {
			mark = "ok  "
			ok++
		}
		fmt.Printf("%s %-70s %s %s %.2fs [%d B] %s\n", mark, strings.ReplaceAll(r.o.Name, repoPrefix+"/", ""), r.res.Status, r.res.Solver, r.res.Secs, r.res.Size, r.o.Pos)
		if r.res.Status != "unsat" && *verbose {
			fmt.Printf("       src: %s\n       solvers: %s\n", r.o.Src, trunc(fmt.Sprint(r.res.All), 400))
		}
	}
	fmt.Printf("%d/%d discharged\n", ok, len(res))
}
