package main

// Sort registry: maps Go types to SMT sorts and emits the declarations
// (datatypes for structs, uninterpreted sequence sorts for slices/strings).

import (
	"fmt"
	"go/types"
	"sort"
	"strings"
)

// SType is the type of a specification-level value: either a Go type, or a
// ghost total map (SMT array) from K to V.
type SType struct {
	Go   types.Type
	MapK *SType
	MapV *SType
	Raw  string // raw SMT sort (ghost sorts such as Bool/Int when no Go type applies)
}

func goT(t types.Type) *SType { return &SType{Go: t} }

var (
	tInt    = goT(types.Typ[types.Int])
	tBool   = goT(types.Typ[types.Bool])
	tString = goT(types.Typ[types.String])
)

type StructInfo struct {
	Sort   string
	Ctor   string
	Fields []string // accessor names
	FNames []string // Go field names
	FTypes []types.Type
	FSorts []string
}

type SeqInfo struct {
	Sort, Elem      string
	Len, At, IsNil  string
	Cat, Sub, Upd   string
	Nil             string
	ElemGo          types.Type
}

type SortReg struct {
	decls   []string
	seen    map[string]bool
	structs map[string]*StructInfo // by sort
	seqs    map[string]*SeqInfo    // by sort
	tags    map[string]int         // type string → tag
	tagList []string
	boxes   map[string]bool
	inprog  map[string]bool
}

func NewSortReg() *SortReg {
	r := &SortReg{seen: map[string]bool{}, structs: map[string]*StructInfo{}, seqs: map[string]*SeqInfo{},
		tags: map[string]int{}, boxes: map[string]bool{}, inprog: map[string]bool{}}
	r.decls = append(r.decls, "(declare-datatypes ((Iface 0)) (((mk_Iface (itag Int) (ipl Int)))))")
	r.seqSort("Int", types.Typ[types.Byte], "Str")
	r.decls = append(r.decls, "(declare-const emptystr Str)", "(assert (= (len_Str emptystr) 0))")
	// strings are pure contents: every empty string is emptystr, and it is the unit of cat
	r.decls = append(r.decls,
		"(assert (forall ((s Str)) (! (=> (= (len_Str s) 0) (= s emptystr)) :pattern ((len_Str s)))))",
		"(assert (forall ((s Str)) (! (= (cat_Str emptystr s) s) :pattern ((cat_Str emptystr s)))))",
		"(assert (forall ((s Str)) (! (= (cat_Str s emptystr) s) :pattern ((cat_Str s emptystr)))))")
	r.decls = append(r.decls,
		// derived facts about strings, stated for trigger reasons: concatenation is cancellative
		"(assert (forall ((a Str) (b Str) (c Str)) (! (=> (= (cat_Str a b) (cat_Str a c)) (= b c)) :pattern ((cat_Str a b) (cat_Str a c)))))",
		"(assert (forall ((a Str) (b Str) (c Str)) (! (=> (= (cat_Str b a) (cat_Str c a)) (= b c)) :pattern ((cat_Str b a) (cat_Str c a)))))")
	// []byte: content (a Str) plus a nil flag; strings are pure content
	r.seqs["Bytes"] = &SeqInfo{Sort: "Bytes", Elem: "Int", Len: "len_Bytes", At: "at_Bytes", IsNil: "isnil_Bytes", Cat: "cat_Bytes", Sub: "sub_Bytes",
		Upd: "upd_Bytes", Nil: "nil_Bytes", ElemGo: types.Typ[types.Byte]}
	r.decls = append(r.decls,
		"(declare-datatypes ((Bytes 0)) (((mk_Bytes (bcontent Str) (bnil Bool)))))",
		"(declare-fun len_Bytes (Bytes) Int)",
		"(assert (forall ((b Bytes)) (! (= (len_Bytes b) (ite (bnil b) 0 (len_Str (bcontent b)))) :pattern ((len_Bytes b)))))",
		"(define-fun at_Bytes ((b Bytes) (i Int)) Int (at_Str (bcontent b) i))",
		"(define-fun isnil_Bytes ((b Bytes)) Bool (bnil b))",
		"(define-fun nil_Bytes () Bytes (mk_Bytes emptystr true))",
		"(declare-fun cnt_Bytes (Bytes) Str)",
		"(assert (forall ((b Bytes)) (! (= (cnt_Bytes b) (ite (bnil b) emptystr (bcontent b))) :pattern ((cnt_Bytes b)))))",
		"(declare-fun cat_Bytes (Bytes Bytes) Bytes)",
		"(assert (forall ((a Bytes) (b Bytes)) (! (= (cat_Bytes a b) (mk_Bytes (cat_Str (cnt_Bytes a) (cnt_Bytes b)) (and (bnil a) (= (len_Bytes b) 0)))) :pattern ((cat_Bytes a b)))))",
		// derived fact, stated for trigger reasons: the first byte of a concatenation is the first byte of its non-empty head
		"(assert (forall ((a Bytes) (b Bytes)) (! (=> (> (len_Bytes a) 0) (and (= (at_Str (bcontent (cat_Bytes a b)) 0) (at_Str (cnt_Bytes a) 0)) (> (len_Bytes (cat_Bytes a b)) 0))) :pattern ((cat_Bytes a b)))))",
		"(define-fun sub_Bytes ((s Bytes) (a Int) (b Int)) Bytes (mk_Bytes (sub_Str (bcontent s) a b) (bnil s)))",
		"(define-fun upd_Bytes ((s Bytes) (k Int) (v Int)) Bytes (mk_Bytes (upd_Str (bcontent s) k v) (bnil s)))",
		"(define-fun tobytes ((s Str)) Bytes (mk_Bytes s false))",
		"(declare-fun tostring (Bytes) Str)",
		"(assert (forall ((b Bytes)) (! (= (tostring b) (cnt_Bytes b)) :pattern ((tostring b)))))",
		"(define-fun ext_Bytes ((a Bytes) (b Bytes)) Bool (ext_Str (bcontent a) (bcontent b)))",
	)
	// bytes are in [0,256)
	r.decls = append(r.decls, "(assert (forall ((s Str) (i Int)) (! (and (<= 0 (at_Str s i)) (< (at_Str s i) 256)) :pattern ((at_Str s i)))))")
	return r
}

func mangle(s string) string {
	var b strings.Builder
	for _, c := range s {
		switch {
		case c >= 'a' && c <= 'z', c >= 'A' && c <= 'Z', c >= '0' && c <= '9', c == '_', c == '.':
			b.WriteRune(c)
		default:
			b.WriteByte('_')
		}
	}
	return b.String()
}

func shortPath(p string) string {
	parts := strings.Split(p, "/")
	if len(parts) > 2 {
		parts = parts[len(parts)-2:]
	}
	return strings.Join(parts, "_")
}

func namedSortName(n *types.Named) string {
	o := n.Obj()
	if o.Pkg() == nil {
		return o.Name()
	}
	return mangle(shortPath(o.Pkg().Path()) + "_" + o.Name())
}

func (r *SortReg) seqSort(elem string, elemGo types.Type, name string) *SeqInfo {
	if si, ok := r.seqs[name]; ok {
		return si
	}
	si := &SeqInfo{Sort: name, Elem: elem, Len: "len_" + name, At: "at_" + name, IsNil: "isnil_" + name,
		Cat: "cat_" + name, Sub: "sub_" + name, Upd: "upd_" + name, Nil: "nil_" + name, ElemGo: elemGo}
	r.seqs[name] = si
	d := func(f string, a ...interface{}) { r.decls = append(r.decls, fmt.Sprintf(f, a...)) }
	d("(declare-sort %s 0)", name)
	d("(declare-fun %s (%s) Int)", si.Len, name)
	d("(declare-fun %s (%s Int) %s)", si.At, name, elem)
	d("(declare-fun %s (%s) Bool)", si.IsNil, name)
	d("(declare-fun %s (%s %s) %s)", si.Cat, name, name, name)
	d("(declare-fun %s (%s Int Int) %s)", si.Sub, name, name)
	d("(declare-fun %s (%s Int %s) %s)", si.Upd, name, elem, name)
	d("(declare-const %s %s)", si.Nil, name)
	d("(assert (forall ((s %s)) (! (>= (%s s) 0) :pattern ((%s s)))))", name, si.Len, si.Len)
	d("(assert (forall ((s %s)) (! (=> (%s s) (= (%s s) 0)) :pattern ((%s s)))))", name, si.IsNil, si.Len, si.IsNil)
	d("(assert (%s %s))", si.IsNil, si.Nil)
	// cat
	d("(assert (forall ((a %s) (b %s)) (! (= (%s (%s a b)) (+ (%s a) (%s b))) :pattern ((%s a b)))))", name, name, si.Len, si.Cat, si.Len, si.Len, si.Cat)
	d("(assert (forall ((a %s) (b %s) (i Int)) (! (=> (and (<= 0 i) (< i (+ (%s a) (%s b)))) (= (%s (%s a b) i) (ite (< i (%s a)) (%s a i) (%s b (- i (%s a)))))) :pattern ((%s (%s a b) i)))))",
		name, name, si.Len, si.Len, si.At, si.Cat, si.Len, si.At, si.At, si.Len, si.At, si.Cat)
	// sub
	d("(assert (forall ((s %s) (a Int) (b Int)) (! (=> (and (<= 0 a) (<= a b)) (= (%s (%s s a b)) (- b a))) :pattern ((%s s a b)))))", name, si.Len, si.Sub, si.Sub)
	d("(assert (forall ((s %s) (a Int) (b Int) (i Int)) (! (=> (and (<= 0 a) (<= a b) (<= 0 i) (< i (- b a))) (= (%s (%s s a b) i) (%s s (+ a i)))) :pattern ((%s (%s s a b) i)))))",
		name, si.At, si.Sub, si.At, si.At, si.Sub)
	// upd
	d("(assert (forall ((s %s) (k Int) (v %s)) (! (= (%s (%s s k v)) (%s s)) :pattern ((%s s k v)))))", name, elem, si.Len, si.Upd, si.Len, si.Upd)
	// update: only in-range positions are specified (an unguarded axiom contradicts extensionality), and for
	// byte strings only byte values
	rng := ""
	if name == "Str" {
		rng = " (<= 0 v) (< v 256)"
	}
	d("(assert (forall ((s %s) (k Int) (v %s) (i Int)) (! (=> (and (<= 0 k) (< k (%s s))%s) (= (%s (%s s k v) i) (ite (= i k) v (%s s i)))) :pattern ((%s (%s s k v) i)))))",
		name, elem, si.Len, rng, si.At, si.Upd, si.At, si.At, si.Upd)
	// extensionality (skolemised), triggered by the marker ext_<sort>
	d("(declare-fun ext_%s (%s %s) Bool)", name, name, name)
	d("(declare-fun extd_%s (%s %s) Int)", name, name, name)
	nilEq := fmt.Sprintf("(= (%s a) (%s b))", si.IsNil, si.IsNil)
	if name == "Str" {
		nilEq = "true" // strings are pure contents
	}
	// extensionality, instantiated on demand: the marker term ext_S(a,b) is only the trigger
	d("(assert (forall ((a %s) (b %s)) (! (=> (and (= (%s a) (%s b)) %s (=> (and (<= 0 (extd_%s a b)) (< (extd_%s a b) (%s a))) (= (%s a (extd_%s a b)) (%s b (extd_%s a b))))) (= a b)) :pattern ((ext_%s a b)))))",
		name, name, si.Len, si.Len, nilEq, name, name, si.Len, si.At, name, si.At, name, name)
	return si
}

// SortOf returns the SMT sort for a Go type.
func (r *SortReg) SortOf(t types.Type) string {
	switch tt := t.(type) {
	case *types.Basic:
		switch {
		case tt.Info()&types.IsBoolean != 0:
			return "Bool"
		case tt.Info()&types.IsInteger != 0:
			return "Int"
		case tt.Info()&types.IsString != 0:
			return "Str"
		case tt.Kind() == types.UnsafePointer, tt.Kind() == types.UntypedNil:
			return "Int"
		case tt.Info()&types.IsFloat != 0:
			return "Real"
		}
		return "Int"
	case *types.Pointer:
		return "Int"
	case *types.Signature, *types.Chan:
		return "Int"
	case *types.Map:
		return "Int"
	case *types.Interface:
		return "Iface"
	case *types.Slice:
		es := r.SortOf(tt.Elem())
		if b, ok := tt.Elem().Underlying().(*types.Basic); ok && (b.Kind() == types.Byte || b.Kind() == types.Uint8) {
			return "Bytes"
		}
		name := "Seq_" + mangle(es)
		r.seqSort(es, tt.Elem(), name)
		return name
	case *types.Array:
		return "(Array Int " + r.SortOf(tt.Elem()) + ")"
	case *types.Named:
		switch u := tt.Underlying().(type) {
		case *types.Struct:
			return r.structSort(namedSortName(tt), u, tt)
		default:
			return r.SortOf(u)
		}
	case *types.Alias:
		return r.SortOf(types.Unalias(tt))
	case *types.Struct:
		return r.structSort("anon_"+mangle(tt.String()), tt, nil)
	case *types.Tuple:
		return "Int"
	case *types.TypeParam:
		return "Int"
	}
	return "Int"
}

func hasUnexported(st *types.Struct, n *types.Named, localPrefix string) bool {
	if n == nil || n.Obj().Pkg() == nil {
		return false
	}
	if strings.HasPrefix(n.Obj().Pkg().Path(), localPrefix) || verifiedDeps[n.Obj().Pkg().Path()] {
		return false
	}
	for i := 0; i < st.NumFields(); i++ {
		if !st.Field(i).Exported() {
			return true
		}
	}
	return st.NumFields() == 0
}

const repoPrefix = "github.com/medibloc/panacea-core/v2"

func (r *SortReg) structSort(name string, st *types.Struct, n *types.Named) string {
	if r.seen[name] {
		return name
	}
	r.seen[name] = true
	if hasUnexported(st, n, repoPrefix) {
		// opaque external struct
		r.decls = append(r.decls, fmt.Sprintf("(declare-sort %s 0)", name))
		return name
	}
	si := &StructInfo{Sort: name, Ctor: "mk_" + name}
	var fs []string
	for i := 0; i < st.NumFields(); i++ {
		f := st.Field(i)
		fsort := r.SortOf(f.Type())
		acc := name + "." + f.Name()
		si.Fields = append(si.Fields, acc)
		si.FNames = append(si.FNames, f.Name())
		si.FTypes = append(si.FTypes, f.Type())
		si.FSorts = append(si.FSorts, fsort)
		fs = append(fs, fmt.Sprintf("(%s %s)", acc, fsort))
	}
	r.structs[name] = si
	if len(fs) == 0 {
		r.decls = append(r.decls, fmt.Sprintf("(declare-datatypes ((%s 0)) (((%s))))", name, si.Ctor))
	} else {
		r.decls = append(r.decls, fmt.Sprintf("(declare-datatypes ((%s 0)) (((%s %s))))", name, si.Ctor, strings.Join(fs, " ")))
	}
	return name
}

// Tag returns a non-zero integer identifying a concrete dynamic type.
func (r *SortReg) Tag(t types.Type) int {
	k := t.String()
	if v, ok := r.tags[k]; ok {
		return v
	}
	v := len(r.tags) + 1
	r.tags[k] = v
	r.tagList = append(r.tagList, k)
	return v
}

// Box returns the name of the injection of a value sort into interface payloads.
func (r *SortReg) Box(sort string) (box, unbox string) {
	m := mangle(sort)
	box, unbox = "box_"+m, "unbox_"+m
	if !r.boxes[m] {
		r.boxes[m] = true
		r.decls = append(r.decls,
			fmt.Sprintf("(declare-fun %s (%s) Int)", box, sort),
			fmt.Sprintf("(declare-fun %s (Int) %s)", unbox, sort),
			fmt.Sprintf("(assert (forall ((v %s)) (! (= (%s (%s v)) v) :pattern ((%s v)))))", sort, unbox, box, box))
	}
	return
}

func (r *SortReg) Decls() []string { return r.decls }

func (r *SortReg) STSort(t *SType) string {
	if t == nil {
		return "Int"
	}
	if t.Raw != "" {
		return t.Raw
	}
	if t.MapK != nil {
		return "(Array " + r.STSort(t.MapK) + " " + r.STSort(t.MapV) + ")"
	}
	return r.SortOf(t.Go)
}

func sortedKeys(m map[string]string) []string {
	var ks []string
	for k := range m {
		ks = append(ks, k)
	}
	sort.Strings(ks)
	return ks
}
