package main

// pvc check <id>: decide one property on /repo's current tree.

import (
	"os/exec"
	"encoding/json"
	"sync"
	"flag"
	"fmt"
	"os"
	"path/filepath"
	"sort"
	"strconv"
	"strings"
	"time"
)

type PropCfg struct {
	Patterns    []string `json:"patterns"`
	Funcs       []string `json:"funcs"`
	Assumptions []string `json:"assumptions"`
	Trusted     []string `json:"trusted_base"`
	Note        string   `json:"note"`
	Ground      []string `json:"ground"` // names of built-in ground checks
	Exec        string   `json:"exec"`   // name of a built-in executable (bounded) check
	FuncsTagged []string `json:"funcs_tagged"` // further functions for which only explicitly tagged obligations count
	TaggedOnly  bool     `json:"tagged_only"` // count only obligations explicitly tagged with this property
}

type KnownFinding struct {
	Property   string `json:"property"`
	Obligation string `json:"obligation"`
	What       string `json:"what"`
	Status     string `json:"status"` // "open" or "fixed: <commit>"
}

type oblReport struct {
	Name   string  `json:"name"`
	Kind   string  `json:"kind"`
	Status string  `json:"status"`
	Solver string  `json:"solver,omitempty"`
	Secs   float64 `json:"secs"`
	Size   int     `json:"smt_bytes"`
	Src    string  `json:"clause,omitempty"`
	Pos    string  `json:"pos,omitempty"`
}

func fullKey(key string) string {
	if i := strings.Index(key, "@"); i >= 0 {
		t := key[i+1:]
		ft := repoPrefix + "/" + strings.TrimPrefix(t, "*")
		if strings.HasPrefix(t, "*") {
			ft = "*" + ft
		}
		return fullKey(key[:i]) + "@" + ft
	}
	if strings.HasPrefix(strings.TrimLeft(key, "(*"), "github.com/") {
		return key // already a full import path (a verified dependency)
	}
	switch {
	case strings.HasPrefix(key, "(*"):
		return "(*" + repoPrefix + "/" + key[2:]
	case strings.HasPrefix(key, "("):
		return "(" + repoPrefix + "/" + key[1:]
	case strings.HasPrefix(key, "lemma:"):
		return key
	}
	return repoPrefix + "/" + key
}

func loadProps() (map[string]*PropCfg, error) {
	data, err := os.ReadFile(filepath.Join(verifDir, "props.json"))
	if err != nil {
		return nil, err
	}
	m := map[string]*PropCfg{}
	if err := json.Unmarshal(data, &m); err != nil {
		return nil, err
	}
	return m, nil
}

func loadLedger(id string) map[string]bool {
	m := map[string]bool{}
	data, err := os.ReadFile(filepath.Join(verifDir, "ledger", id+".json"))
	if err != nil {
		return m
	}
	var names []string
	json.Unmarshal(data, &names)
	for _, n := range names {
		m[n] = true
	}
	return m
}

func loadKnown() []KnownFinding {
	var k []KnownFinding
	data, err := os.ReadFile(filepath.Join(verifDir, "known_findings.json"))
	if err == nil {
		json.Unmarshal(data, &k)
	}
	return k
}

func tagged(tags []string, id string) bool {
	if len(tags) == 0 {
		return true
	}
	for _, t := range tags {
		if t == id {
			return true
		}
	}
	return false
}

func cmdCheck(args []string) int {
	fs := flag.NewFlagSet("check", flag.ExitOnError)
	tier := fs.String("tier", "", "quick|thorough")
	update := fs.Bool("update-ledger", false, "rewrite the ledger from this run (maintenance only)")
	verbose := fs.Bool("v", false, "list every obligation")
	var id string
	if len(args) > 0 && !strings.HasPrefix(args[0], "-") {
		id = args[0]
		args = args[1:]
	}
	fs.Parse(args)
	if id == "" && fs.NArg() > 0 {
		id = fs.Arg(0)
	}
	if *tier == "" {
		*tier = os.Getenv("VERIF_TIER")
	}
	if *tier == "" {
		*tier = "quick"
	}
	seed, _ := strconv.Atoi(os.Getenv("VERIF_SEED"))
	t0 := time.Now()
	props, err := loadProps()
	if err != nil {
		fmt.Fprintln(os.Stderr, "props.json:", err)
		return 2
	}
	cfg := props[id]
	if cfg == nil {
		fmt.Fprintln(os.Stderr, "unknown property", id)
		return 2
	}
	if cfg.Exec != "" {
		return runExecCheck(id, cfg, *tier, seed, t0)
	}
	timeout := 24
	if *tier == "thorough" {
		timeout = 90
	}
	g, err := LoadGen(repoDir, verifDir, cfg.Patterns, nil)
	if err != nil {
		fmt.Printf("UNDECIDED property=%s cannot load /repo with -tags verif: %v\n", id, err)
		writeEvidence(id, *tier, seed, t0, nil, cfg, nil, 0, []string{"load failure: " + err.Error()}, 0)
		return 2
	}
	g.tier = *tier
	var fts []*FT
	var undecided []string
	files := map[string]bool{}
	usedLemmas := map[string]bool{}
	taggedFn := map[string]bool{}
	ensTagged := map[string]bool{} // functions with a postcondition tagged for this property: their untagged loop invariants carry it
	for _, k := range cfg.FuncsTagged {
		taggedFn[fullKey(k)] = true
	}
	for _, k := range append(append([]string{}, cfg.Funcs...), cfg.FuncsTagged...) {
		key := fullKey(k)
		fnKey := key
		if i := strings.Index(key, "@"); i >= 0 {
			fnKey = key[:i]
		}
		fn := g.FindFunc(fnKey)
		c := g.db.Contracts[key]
		if fn == nil {
			undecided = append(undecided, "contract-target-missing "+k)
			continue
		}
		ft := g.TranslateFunction(fn, c)
		fts = append(fts, ft)
		if c != nil {
			for _, cl := range c.Ensures {
				if len(cl.Tags) > 0 && tagged(cl.Tags, id) {
					ensTagged[ft.name] = true
				}
			}
			files[c.File] = true
			for _, u := range c.Uses {
				usedLemmas[u] = true
			}
		}
	}
	// lemmas visible to these functions
	only := map[string]bool{}
	for _, ax := range g.db.Axioms {
		if ax.Lemma && (files[ax.File] || usedLemmas[ax.Name]) && tagged(ax.Tags, id) {
			only[ax.Name] = true
		}
	}
	if len(only) > 0 {
		fts = append(fts, g.LemmaFT(only)...)
	}
	for _, ft := range fts {
		for _, u := range ft.dropped {
			undecided = append(undecided, "in "+shortKey(ft.name)+": "+u)
		}
		for _, u := range ft.unsupp {
			undecided = append(undecided, "unsupported in "+shortKey(ft.name)+": "+u)
		}
	}
	dir, _ := os.MkdirTemp("", "pvc-"+id)
	defer os.RemoveAll(dir)
	filter := func(o *Obl) bool {
		if cfg.TaggedOnly || taggedFn[o.Fn] {
			if len(o.Tags) == 0 && ensTagged[o.Fn] && (o.Kind == "inv-init" || o.Kind == "inv-pres") {
				return true
			}
			return len(o.Tags) > 0 && tagged(o.Tags, id)
		}
		return tagged(o.Tags, id)
	}
	tPhase := time.Now()
	fmt.Fprintf(os.Stderr, "[phase] load+translate %.1fs\n", tPhase.Sub(t0).Seconds())
	res := runObligations(fts, dir, timeout, filter, 4)
	fmt.Fprintf(os.Stderr, "[phase] obligations %.1fs\n", time.Since(tPhase).Seconds())
	for _, r := range res {
		if r.res.Secs > 5 {
			// slow queries are the unstable ones: listed so that they can be restated before they start to flicker
			fmt.Fprintf(os.Stderr, "[slow] %.1fs %s %s\n", r.res.Secs, r.res.Status, shortKey(r.o.Name))
		}
	}
	tPhase = time.Now()
	// vacuity covers
	vac := runCovers(fts, dir, *tier == "thorough")
	fmt.Fprintf(os.Stderr, "[phase] covers %.1fs\n", time.Since(tPhase).Seconds())
	ledger := loadLedger(id)
	known := loadKnown()
	knownOpen := map[string]KnownFinding{}
	for _, k := range known {
		if k.Property == id && k.Status == "open" {
			knownOpen[k.Obligation] = k
		}
	}
	ledgerFn := map[string]bool{} // functions with at least one obligation discharged on the reference tree
	for n := range ledger {
		if i := strings.Index(n, "#"); i >= 0 {
			ledgerFn[n[:i]] = true
		}
	}
	ledgerClass := map[string]bool{}
	for n := range ledger {
		ledgerClass[classOfName(n)] = true
	}
	var reports []oblReport
	discharged := 0
	bySolver := map[string]int{}
	solverSecs := 0.0
	violations := 0
	var lines []string
	names := []string{}
	unsuppFn := map[string]bool{}
	for _, ft := range fts {
		if len(ft.unsupp) > 0 {
			unsuppFn[ft.name] = true
		}
	}
	seen := map[string]bool{}
	for _, r := range res {
		name := shortKey(r.o.Name)
		seen[name] = true
		rep := oblReport{Name: name, Kind: r.o.Kind, Status: r.res.Status, Solver: r.res.Solver, Secs: r.res.Secs, Size: r.res.Size, Src: r.o.Src, Pos: strings.TrimPrefix(r.o.Pos, repoDir+"/")}
		reports = append(reports, rep)
		solverSecs += r.res.Secs
		if r.res.Status == "unsat" && !unsuppFn[r.ft.name] {
			discharged++
			bySolver[r.res.Solver]++
			names = append(names, name)
			continue
		}
		if kf, ok := knownOpen[name]; ok {
			lines = append(lines, fmt.Sprintf("KNOWN-FINDING: property=%s %s (%s)", id, kf.What, name))
			continue
		}
		newFrameBreak := false
		switch r.o.Kind {
		case "extcall", "nondet", "global-read", "global-write":
			// a call into unspecified code / a nondeterminism source / a shared package variable that the reference tree
			// did not have at all in this function: reported even when the rest of the function no longer matches its
			// contract (these obligations do not depend on the invariants)
			newFrameBreak = !ledgerClass[classOfName(name)]
		}
		if unsuppFn[r.ft.name] && !newFrameBreak {
			undecided = append(undecided, "obligation "+name+" (function uses constructs outside the verified subset)")
			continue
		}
		inLedger := ledger[name]
		if !inLedger && (r.o.Kind == "extcall" || r.o.Kind == "nondet" || r.o.Kind == "global-read" || r.o.Kind == "global-write") {
			inLedger = true
		}
		if !inLedger && ledgerClass[classOfName(name)] {
			// a new instance of a contract clause (e.g. a new back edge of a loop invariant, a new call site of a
			// precondition) that was fully discharged on the reference tree; raw safety obligations count only for C17
			switch r.o.Kind {
			case "post", "inv-init", "inv-pres", "pre", "assigns", "lemma", "lemma-base", "lemma-step":
				inLedger = true
			case "extcall", "nondet", "global-read", "global-write":
				inLedger = true // a new call into unspecified code breaks the frame argument of C09/C15
			default:
				inLedger = id == "C17"
			}
		}
		if !inLedger && id == "C17" && (r.o.Kind == "panic-call" || r.o.Kind == "pre") && ledgerFn[fnOfName(name)] {
			// C17 is totality per entry point: this function was proved panic-free on the reference tree (every safety
			// obligation it generated is in the ledger); a new reachable panic or a new unproved precondition of a
			// callee in it means "F is total" passed on the reference tree and fails now
			inLedger = true
		}
		if inLedger || *update {
			path := writeReplay(id, name, r)
			suffix := " no-failing-input-found"
			if ok, rp := tryReplay(g, id, r, path); ok {
				suffix = ""
				path = rp
			}
			violations++
			lines = append(lines, fmt.Sprintf("VIOLATION property=%s replay=%s obligation=%s%s", id, path, name, suffix))
		} else {
			undecided = append(undecided, "obligation "+name+" ("+r.res.Status+"; not in the ledger of the reference tree)")
		}
	}
	// ledger obligations that disappeared
	var missing []string
	for n := range ledger {
		if !seen[n] {
			missing = append(missing, n)
		}
	}
	sort.Strings(missing)
	for _, m := range missing {
		undecided = append(undecided, "ledger obligation no longer generated: "+m)
	}
	for _, v := range vac {
		lines = append(lines, "VACUOUS "+v)
	}
	if *verbose {
		for _, r := range reports {
			fmt.Printf("%-6s %s %s %.2fs\n", r.Status, r.Name, r.Solver, r.Secs)
		}
	}
	for _, u := range undecided {
		fmt.Println("UNDECIDED property=" + id + " " + u)
	}
	for _, l := range lines {
		fmt.Println(l)
	}
	if *update && violations == 0 {
		sort.Strings(names)
		data, _ := json.MarshalIndent(names, "", " ")
		os.MkdirAll(filepath.Join(verifDir, "ledger"), 0o755)
		os.WriteFile(filepath.Join(verifDir, "ledger", id+".json"), append(data, '\n'), 0o644)
	}
	if *tier == "thorough" && os.Getenv("PVC_NOSELFTEST") == "" && !*update {
		// fixed findings must stay fixed: their replay tests (real inputs against the real code) run on the current tree
		for _, l := range runFindingReplays(id) {
			fmt.Println(l)
			violations++
		}
	}
	if *tier == "thorough" && violations == 0 && len(vac) == 0 && os.Getenv("PVC_NOSELFTEST") == "" && !*update {
		selftest = runSelftest(id)
	}
	writeEvidence(id, *tier, seed, t0, reports, cfg, fts, discharged, undecided, violations)
	fmt.Printf("property=%s tier=%s obligations=%d discharged=%d undecided=%d violations=%d wall=%.1fs\n", id, *tier, len(reports), discharged, len(undecided), violations, time.Since(t0).Seconds())
	_ = bySolver
	_ = solverSecs
	if len(vac) > 0 {
		return 2
	}
	if violations > 0 {
		return 1
	}
	return 0
}

// runCovers: for every function, the entry assumptions (requires + axioms) must be satisfiable:
// a query asking to prove "false" at entry must not be answered unsat.
func runCovers(fts []*FT, dir string, thorough bool) []string {
	cs, ct, par := coverSolvers, 1, 8
	if thorough {
		cs, ct, par = solvers, 3, 3
	}
	var bad []string
	coverAxs := map[*FT][]axTerm{}
	for _, ft := range fts {
		coverAxs[ft] = ft.axiomTerms(ft.axUpTo)
	}
	type ej struct {
		ft *FT
		n  int
	}
	var ejobs []ej
	for _, ft := range fts {
		if ft.fn == nil || ft.c == nil || len(ft.c.Requires) == 0 {
			continue
		}
		// entry facts: everything before the first obligation
		n := len(ft.facts)
		if len(ft.obls) > 0 {
			n = ft.obls[0].NFacts
		}
		ejobs = append(ejobs, ej{ft, n})
	}
	eres := make([]string, len(ejobs))
	{
		var wg sync.WaitGroup
		sem := make(chan bool, par)
		for i, j := range ejobs {
			wg.Add(1)
			sem <- true
			go func(i int, j ej) {
				defer wg.Done()
				defer func() { <-sem }()
				o := &Obl{Name: j.ft.name + "#cover", Kind: "cover", NFacts: j.n, Guard: "true", Goal: "false"}
				q := j.ft.buildQueryOpt(o, coverAxs[j.ft], false)
				r := solveWith(cs, q, dir, o.Name, ct, false)
				if os.Getenv("PVC_KEEPCOVER") != "" {
					os.WriteFile("/tmp/cover_"+mangle(shortKey(j.ft.name))+".smt2", []byte(q), 0o644)
				}
				if r.Status == "unsat" {
					eres[i] = "precondition of " + shortKey(j.ft.name) + " is contradictory (proved false at entry)"
				}
			}(i, j)
		}
		wg.Wait()
	}
	for _, r := range eres {
		if r != "" {
			bad = append(bad, r)
		}
	}
	// path covers: the normal return and every loop body must be reachable under the assumed contracts; otherwise the
	// obligations on those paths were discharged vacuously (e.g. an assumed callee postcondition contradicts the state)
	type cj struct {
		ft *FT
		c  cover
	}
	var jobs []cj
	for _, ft := range fts {
		if ft.fn == nil {
			continue
		}
		for _, c := range ft.covers {
			jobs = append(jobs, cj{ft, c})
		}
	}
	res := make([]string, len(jobs))
	var wg sync.WaitGroup
	sem := make(chan bool, par)
	for i, j := range jobs {
		wg.Add(1)
		sem <- true
		go func(i int, j cj) {
			defer wg.Done()
			defer func() { <-sem }()
			o := &Obl{Name: j.c.Name, Kind: "cover", NFacts: j.c.NFacts, Guard: j.c.Guard, Goal: "false"}
			q := j.ft.buildQueryOpt(o, coverAxs[j.ft], true)
			r := solveWith(cs, q, dir, o.Name, ct, false)
			if k := os.Getenv("PVC_KEEPCOVER"); k != "" && (r.Status == "unsat" || k == "all") {
				os.WriteFile("/tmp/cover_"+mangle(shortKey(j.c.Name))+".smt2", []byte(q), 0o644)
			}
			if r.Status == "unsat" {
				res[i] = shortKey(j.c.Name) + " is unreachable under the assumed contracts (obligations there hold vacuously)"
			}
		}(i, j)
	}
	wg.Wait()
	for _, r := range res {
		if r != "" {
			bad = append(bad, r)
		}
	}
	return bad
}

func writeReplay(id, name string, r oblResult) string {
	dir := filepath.Join(verifDir, "replays")
	os.MkdirAll(dir, 0o755)
	path := filepath.Join(dir, id+"_"+fmt.Sprintf("%08x", hashStr(name))+".txt")
	var b strings.Builder
	fmt.Fprintf(&b, "property: %s\nfailed obligation: %s\nkind: %s\nclause: %s\nsource position: %s\nsolver verdicts: %v\n", id, name, r.o.Kind, r.o.Src, r.o.Pos, r.res.All)
	fmt.Fprintf(&b, "meaning: this obligation was discharged on the reference tree (ledger) and is not provable on the current tree.\n")
	fmt.Fprintf(&b, "solver output:\n%s\n", trunc(r.res.Output, 4000))
	os.WriteFile(path, []byte(b.String()), 0o644)
	return path
}

// tryReplay is the hook for model-based counterexample replay (per-kind concretisers); see replay.go.
var tryReplay = func(g *Gen, id string, r oblResult, path string) (bool, string) { return false, path }

func writeEvidence(id, tier string, seed int, t0 time.Time, reports []oblReport, cfg *PropCfg, fts []*FT, discharged int, undecided []string, violations int) {
	assumed := map[string]bool{}
	inlined := map[string]bool{}
	modular := map[string]bool{}
	havoced := map[string]bool{}
	axioms := map[string]bool{}
	var funcs []string
	for _, ft := range fts {
		funcs = append(funcs, shortKey(ft.name))
		for k := range ft.assumed {
			assumed[shortKey(k)] = true
		}
		for k := range ft.inlined {
			inlined[shortKey(k)] = true
		}
		for k := range ft.modular {
			modular[shortKey(k)] = true
		}
		for k := range ft.havoced {
			havoced[shortKey(k)] = true
		}
		for k := range ft.axUsed {
			axioms[k] = true
		}
	}
	bySolver := map[string]int{}
	secs := 0.0
	for _, r := range reports {
		if r.Status == "unsat" {
			bySolver[r.Solver]++
		}
		secs += r.Secs
	}
	var samples []oblReport
	for i, r := range reports {
		if i%((len(reports)/6)+1) == 0 {
			samples = append(samples, r)
		}
	}
	assumptions := append([]string{}, cfg.Assumptions...)
	for _, k := range sortedStrs(assumed) {
		assumptions = append(assumptions, "assumed external contract: "+k)
	}
	for _, k := range sortedStrs(havoced) {
		assumptions = append(assumptions, "external call without contract, assumed total and effect-free: "+k)
	}
	var axs []string
	for _, k := range sortedStrs(axioms) {
		axs = append(axs, k)
	}
	if len(axs) > 0 {
		assumptions = append(assumptions, "axioms/definitions/lemmas used in queries (lemmas are proved in this run when listed as obligations): "+strings.Join(axs, ", "))
	}
	assumptions = append(assumptions, "int arithmetic is mathematical (A-int); unsigned arithmetic is exact modulo 2^k; termination not proved")
	ev := map[string]interface{}{
		"property_id": id, "tier": tier, "seed": seed, "level": "proof",
		"coverage": map[string]interface{}{
			"obligations": len(reports), "discharged": discharged,
			"checker_cmd":  "/verif/bin/pvc check " + id + " --tier " + tier,
			"trusted_base": cfg.Trusted,
			"functions_under_contract": funcs,
			"callees_used_by_contract": sortedStrs(modular),
			"callees_inlined":          sortedStrs(inlined),
			"discharged_by_backend":    bySolver,
			"solver_seconds":           secs,
			"undecided":                undecided,
			"samples":                  samples,
			"explanation":              cfg.Note,
			"selftest_canaries":        selftest,
			"finding_replays":          findingReplays,
		},
		"assumptions": assumptions,
		"wall_s":      time.Since(t0).Seconds(),
		"violations":  violations,
	}
	if len(reports) == 0 {
		ev["coverage"].(map[string]interface{})["evaluations"] = 0
	}
	os.MkdirAll(filepath.Join(verifDir, "evidence"), 0o755)
	data, _ := json.MarshalIndent(ev, "", " ")
	os.WriteFile(filepath.Join(verifDir, "evidence", id+".json"), data, 0o644)
}

func runExecCheck(id string, cfg *PropCfg, tier string, seed int, t0 time.Time) int {
	fmt.Fprintln(os.Stderr, "no executable check registered for", id)
	return 2
}

func cmdReplay(args []string) int {
	if len(args) == 0 {
		fmt.Fprintln(os.Stderr, "usage: pvc replay <path>")
		return 2
	}
	data, err := os.ReadFile(args[0])
	if err != nil {
		fmt.Fprintln(os.Stderr, err)
		return 2
	}
	fmt.Print(string(data))
	return 0
}

func cmdSelftest(args []string) int { return 2 }

// classOfName strips the instance ordinal: obligations of one contract clause / one safety kind of one function.
func fnOfName(n string) string {
	if i := strings.Index(n, "#"); i >= 0 {
		return n[:i]
	}
	return n
}

func classOfName(n string) string {
	if i := strings.LastIndex(n, "/"); i >= 0 {
		return n[:i]
	}
	return n
}

// selftest: must-fail corpus (thorough tier). Every seeded change of /verif/seeded/expected.json that this property's
// check is expected to catch is applied to a scratch copy of the repository's working tree and the quick check is run
// on it (with a scratch copy of /verif, so nothing of this run is overwritten). Informational: the outcome is written to
// the evidence and printed, it never changes the exit code (a missed canary is a weakness of the check, not a violation
// of the repository).
var selftest map[string]interface{}

func runSelftest(id string) map[string]interface{} {
	out := map[string]interface{}{}
	data, err := os.ReadFile(filepath.Join(verifDir, "seeded", "expected.json"))
	if err != nil {
		return out
	}
	exp := map[string][]string{}
	if json.Unmarshal(data, &exp) != nil {
		return out
	}
	var names []string
	for n, ids := range exp {
		for _, x := range ids {
			if x == id {
				names = append(names, n)
			}
		}
	}
	sort.Strings(names)
	if len(names) == 0 {
		return out
	}
	self, err := os.Executable()
	if err != nil {
		return out
	}
	tmp, err := os.MkdirTemp("", "pvc-selftest-"+id)
	if err != nil {
		return out
	}
	defer os.RemoveAll(tmp)
	scratchV := filepath.Join(tmp, "verif")
	run := func(dir string, name string, args ...string) (string, error) {
		cmd := exec.Command(name, args...)
		cmd.Dir = dir
		b, err := cmd.CombinedOutput()
		return string(b), err
	}
	if _, err := run("/", "rsync", "-a", "--exclude", ".git", "--exclude", "engine", "--exclude", "bin", "--exclude", "evidence", "--exclude", "replays", "--exclude", "seeded", verifDir+"/", scratchV+"/"); err != nil {
		return out
	}
	var detected, missed []string
	for _, n := range names {
		scratchR := filepath.Join(tmp, "repo")
		os.RemoveAll(scratchR)
		if _, err := run("/", "rsync", "-a", "--exclude", ".git", repoDir+"/", scratchR+"/"); err != nil {
			continue
		}
		if o, err := run(scratchR, "patch", "-p1", "-s", "-i", filepath.Join(verifDir, "seeded", n, "patch.diff")); err != nil {
			missed = append(missed, n+" (patch does not apply to the current tree: "+trunc(strings.TrimSpace(o), 80)+")")
			continue
		}
		cmd := exec.Command(self, "check", id, "--tier", "quick")
		cmd.Env = append(os.Environ(), "PVC_REPO="+scratchR, "PVC_VERIF="+scratchV, "PVC_NOSELFTEST=1")
		b, _ := cmd.CombinedOutput()
		if strings.Contains(string(b), "\nVIOLATION property="+id) || strings.HasPrefix(string(b), "VIOLATION property="+id) {
			detected = append(detected, n)
		} else {
			missed = append(missed, n)
		}
	}
	out["run"] = len(names)
	out["detected"] = detected
	out["missed"] = missed
	fmt.Printf("SELFTEST property=%s canaries=%d detected=%d missed=%v\n", id, len(names), len(detected), missed)
	return out
}

// findingReplays: outcome of the replay tests of repaired findings (thorough tier), for the evidence file.
var findingReplays []map[string]string

// runFindingReplays runs, for every repaired finding of this property listed in /verif/findings/index.json, its replay
// test against the current tree (go test -overlay: nothing is written into the repository). The tests assert the
// CORRECT behaviour, so they pass on the repaired tree; a failing one is a concrete failing input on the real code: the
// defect is back. Returns VIOLATION lines.
func runFindingReplays(id string) []string {
	data, err := os.ReadFile(filepath.Join(verifDir, "findings", "index.json"))
	if err != nil {
		return nil
	}
	var idx []struct{ Finding, Property, File, Pkg, Run string }
	if json.Unmarshal(data, &idx) != nil {
		return nil
	}
	var lines []string
	for _, e := range idx {
		if e.Property != id {
			continue
		}
		tmp, err := os.MkdirTemp("", "pvc-replay")
		if err != nil {
			continue
		}
		src := filepath.Join(verifDir, "findings", e.File)
		ov := fmt.Sprintf("{\"Replace\":{%q:%q}}", filepath.Join(repoDir, e.Pkg, e.File), src)
		os.WriteFile(filepath.Join(tmp, "ov.json"), []byte(ov), 0o644)
		cmd := exec.Command("go", "test", "-overlay", filepath.Join(tmp, "ov.json"), "-vet=off", "-count=1", "-timeout", "300s", "-run", e.Run, "./"+e.Pkg+"/")
		cmd.Dir = repoDir
		cmd.Env = append(os.Environ(), "GOFLAGS=-mod=mod", "GOPROXY=off", "GOSUMDB=off", "GOTOOLCHAIN=local")
		out, rerr := cmd.CombinedOutput()
		os.RemoveAll(tmp)
		res := map[string]string{"finding": e.Finding, "test": e.File + ":" + e.Run, "result": "pass"}
		text := string(out)
		switch {
		case rerr == nil:
		case strings.Contains(text, "--- FAIL"):
			res["result"] = "FAIL"
			dir := filepath.Join(verifDir, "replays")
			os.MkdirAll(dir, 0o755)
			path := filepath.Join(dir, fmt.Sprintf("%s_%s_replay.txt", id, e.Finding))
			os.WriteFile(path, []byte(fmt.Sprintf("property %s: finding %s is back: its replay test fails on the current tree\nreplay: /verif/tools/replay_finding.sh %s %s %s\n\n%s\n", id, e.Finding, src, e.Pkg, e.Run, trunc(text, 6000))), 0o644)
			lines = append(lines, fmt.Sprintf("VIOLATION property=%s replay=%s finding=%s replay test %s fails on the current tree", id, path, e.Finding, e.Run))
		default:
			// does not build / timed out: cannot decide, never an alarm
			res["result"] = "not run: " + trunc(strings.TrimSpace(text), 200)
			fmt.Printf("UNDECIDED property=%s replay test of %s did not run: %s\n", id, e.Finding, trunc(strings.TrimSpace(text), 160))
		}
		findingReplays = append(findingReplays, res)
	}
	return lines
}
