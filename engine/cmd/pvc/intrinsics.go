package main

// Intrinsic (built-in) contracts for polymorphic externals: the protobuf codec (E-codec).

import (
	"fmt"
	"go/types"
	"strings"

	"golang.org/x/tools/go/ssa"
)

func init() {
	intrinsicByPattern = func(key string) intrinsic {
		if !strings.Contains(key, "cosmos-sdk/codec.") {
			return nil
		}
		switch {
		case strings.HasSuffix(key, ").MustMarshal"), strings.HasSuffix(key, ").MustMarshalLengthPrefixed"):
			return codecMarshal(true)
		case strings.HasSuffix(key, ").Marshal"), strings.HasSuffix(key, ").MarshalLengthPrefixed"):
			return codecMarshal(false)
		case strings.HasSuffix(key, ").MustUnmarshal"), strings.HasSuffix(key, ").MustUnmarshalLengthPrefixed"):
			return codecUnmarshal(true)
		case strings.HasSuffix(key, ").Unmarshal"), strings.HasSuffix(key, ").UnmarshalLengthPrefixed"):
			return codecUnmarshal(false)
		}
		return nil
	}
}

// codecFns declares mar/unm/venc for a message sort:
//   unm(mar(x)) = x, venc(mar(x)), mar(x) non-nil; len(b)=0 ==> venc(b) and unm(b) = zero value.
func (g *Gen) codecFns(elem types.Type) (mar, unm, venc string) {
	s := g.reg.SortOf(elem)
	m := mangle(s)
	mar, unm, venc = "mar_"+m, "unm_"+m, "venc_"+m
	if !g.zeroFns[mar] {
		g.zeroFns[mar] = true
		g.reg.decls = append(g.reg.decls,
			fmt.Sprintf("(declare-fun %s (%s) Bytes)", mar, s),
			fmt.Sprintf("(declare-fun %s (Bytes) %s)", unm, s),
			fmt.Sprintf("(declare-fun %s (Bytes) Bool)", venc),
			fmt.Sprintf("(assert (forall ((x %s)) (! (and (= (%s (%s x)) x) (%s (%s x)) (not (isnil_Bytes (%s x)))) :pattern ((%s x)))))", s, unm, mar, venc, mar, mar, mar),
			fmt.Sprintf("(assert (forall ((b Bytes)) (! (=> (= (len_Bytes b) 0) (and (%s b) (= (%s b) %s))) :pattern ((%s b)))))", venc, unm, g.zero(elem), unm),
			fmt.Sprintf("(assert (forall ((b Bytes)) (! (=> (= (len_Bytes b) 0) (%s b)) :pattern ((%s b)))))", venc, venc))
	}
	return
}

func dynElem(v Val) types.Type {
	if v.DynT != nil {
		if p, ok := v.DynT.Underlying().(*types.Pointer); ok {
			return p.Elem()
		}
	}
	if v.Ty != nil {
		if p, ok := v.Ty.Underlying().(*types.Pointer); ok {
			return p.Elem()
		}
	}
	return nil
}

func codecMarshal(must bool) intrinsic {
	return func(fr *frame, com *ssa.CallCommon, args []Val, st *State, reach string) Val {
		ft := fr.ft
		g := ft.g
		ft.assumed["codec.Marshal (E-codec intrinsic)"] = true
		msg := args[len(args)-1]
		elem := dynElem(msg)
		rs := com.Signature().Results()
		if elem == nil {
			ft.unsupported("codec marshal of a value with unknown dynamic type in %s", fr.fn)
			return fr.havocResult(rs, st)
		}
		mar, _, _ := g.codecFns(elem)
		ptr := fr.asValue(msg, st)
		if msg.DynT != nil {
			ptr = g.unboxIface(ptr, msg.DynT)
		}
		ft.addObl(fr, "nil", fr.tag+"marshal", reach, "(not (= "+ptr+" 0))", "marshal of nil message", nil, nil)
		es := g.reg.SortOf(elem)
		h := ft.stateGet(st, "H|"+es, "(Array Int "+es+")")
		res := ft.fresh("mar", "Bytes")
		ft.fact("(= " + res + " (" + mar + " (select " + h + " " + ptr + ")))")
		if must || rs.Len() == 1 {
			return Val{T: res, Ty: rs.At(0).Type()}
		}
		return Val{Ty: rs, Tuple: []Val{{T: res, Ty: rs.At(0).Type()}, {T: "(mk_Iface 0 0)", Ty: rs.At(1).Type()}}}
	}
}

func codecUnmarshal(must bool) intrinsic {
	return func(fr *frame, com *ssa.CallCommon, args []Val, st *State, reach string) Val {
		ft := fr.ft
		g := ft.g
		ft.assumed["codec.Unmarshal (E-codec intrinsic)"] = true
		msg := args[len(args)-1]
		bz := fr.asValue(args[len(args)-2], st)
		elem := dynElem(msg)
		rs := com.Signature().Results()
		if elem == nil {
			ft.unsupported("codec unmarshal into a value with unknown dynamic type in %s", fr.fn)
			return fr.havocResult(rs, st)
		}
		_, unm, venc := g.codecFns(elem)
		ptr := fr.asValue(msg, st)
		if msg.DynT != nil {
			ptr = g.unboxIface(ptr, msg.DynT)
		}
		ft.addObl(fr, "nil", fr.tag+"unmarshal", reach, "(not (= "+ptr+" 0))", "unmarshal into nil message", nil, nil)
		es := g.reg.SortOf(elem)
		hs := "(Array Int " + es + ")"
		h := ft.stateGet(st, "H|"+es, hs)
		nh := ft.fresh("h", hs)
		if must {
			ft.addObl(fr, "pre", fr.tag+"MustUnmarshal.validEncoding", reach, "("+venc+" "+bz+")", "MustUnmarshal panics on bytes that are not a valid encoding", nil, nil)
			ft.fact("(= " + nh + " (store " + h + " " + ptr + " (" + unm + " " + bz + ")))")
			ft.stateSet(fr, st, "H|"+es, hs, nh)
			return Val{T: "0", Ty: rs}
		}
		// error-returning: succeeds iff valid; on failure the target content is unspecified
		junk := ft.fresh("junk", es)
		ft.fact(fmt.Sprintf("(= %s (store %s %s (ite (%s %s) (%s %s) %s)))", nh, h, ptr, venc, bz, unm, bz, junk))
		ft.stateSet(fr, st, "H|"+es, hs, nh)
		errv := ft.fresh("uerr", "Iface")
		ft.fact(fmt.Sprintf("(= (= (itag %s) 0) (%s %s))", errv, venc, bz))
		return Val{T: errv, Ty: rs.At(0).Type()}
	}
}
