package main

// Intrinsic (built-in) contracts for polymorphic externals: the protobuf codec (E-codec).

import (
	"fmt"
	"go/types"
	"strings"

	"golang.org/x/tools/go/ssa"
)

func init() {
	intrinsics["github.com/cosmos/cosmos-sdk/codec/types.NewAnyWithValue"] = newAnyWithValue
	intrinsicByPattern = func(key string) intrinsic {
		if !strings.Contains(key, "cosmos-sdk/codec.") {
			return nil
		}
		switch {
		case strings.HasSuffix(key, ").MustMarshal"):
			return codecMarshal(true, false)
		case strings.HasSuffix(key, ").MustMarshalLengthPrefixed"):
			return codecMarshal(true, true)
		case strings.HasSuffix(key, ").Marshal"):
			return codecMarshal(false, false)
		case strings.HasSuffix(key, ").MarshalLengthPrefixed"):
			return codecMarshal(false, true)
		case strings.HasSuffix(key, ").MustUnmarshal"):
			return codecUnmarshal(true, false)
		case strings.HasSuffix(key, ").MustUnmarshalLengthPrefixed"):
			return codecUnmarshal(true, true)
		case strings.HasSuffix(key, ").Unmarshal"):
			return codecUnmarshal(false, false)
		case strings.HasSuffix(key, ").UnmarshalLengthPrefixed"):
			return codecUnmarshal(false, true)
		}
		return nil
	}
}

// codecFns declares mar/unm/venc for a message sort:
//   unm(mar(x)) = x, venc(mar(x)), mar(x) non-nil; len(b)=0 ==> venc(b) and unm(b) = zero value.
func (g *Gen) codecFns(elem types.Type, lp bool) (mar, unm, venc string) {
	s := g.flatSort(elem)
	m := mangle(s)
	if lp {
		m = "lp_" + m
	}
	mar, unm, venc = "mar_"+m, "unm_"+m, "venc_"+m
	if !g.zeroFns[mar] {
		g.zeroFns[mar] = true
		g.reg.decls = append(g.reg.decls,
			fmt.Sprintf("(declare-fun %s (%s) Bytes)", mar, s),
			fmt.Sprintf("(declare-fun %s (Bytes) %s)", unm, s),
			fmt.Sprintf("(declare-fun %s (Bytes) Bool)", venc),
			fmt.Sprintf("(assert (forall ((x %s)) (! (and (%s (%s x)) (not (isnil_Bytes (%s x)))) :pattern ((%s x)))))", s, venc, mar, mar, mar))
		norm := "true"
		if fi := g.reg.structs[s]; fi != nil && strings.HasPrefix(s, "Flat_") {
			// normal form: an absent sub-message carries the zero value; decoding yields normal forms, and the
			// round trip holds for normal forms only
			var ns []string
			for i, fn := range fi.FNames {
				if strings.HasSuffix(fn, "IsNil") && i+1 < len(fi.FNames) && fi.FNames[i+1]+"IsNil" == fn {
					g.reg.decls = append(g.reg.decls, fmt.Sprintf("(assert (forall ((b Bytes)) (! (=> (%s (%s b)) (= (%s (%s b)) %s)) :pattern ((%s b)))))",
						fi.Fields[i], unm, fi.Fields[i+1], unm, g.zero(fi.FTypes[i+1]), unm))
					ns = append(ns, fmt.Sprintf("(=> (%s x) (= (%s x) %s))", fi.Fields[i], fi.Fields[i+1], g.zero(fi.FTypes[i+1])))
				}
			}
			norm = andOf(ns)
		}
		g.reg.decls = append(g.reg.decls, fmt.Sprintf("(assert (forall ((x %s)) (! (=> %s (= (%s (%s x)) x)) :pattern ((%s x)))))", s, norm, unm, mar, mar))
		if !lp {
			// the empty byte string decodes to the zero message (length-prefixed encodings are never empty)
			g.reg.decls = append(g.reg.decls,
				fmt.Sprintf("(assert (forall ((b Bytes)) (! (=> (= (len_Bytes b) 0) (and (%s b) (= (%s b) %s))) :pattern ((%s b)))))", venc, unm, g.flatZero(elem), unm),
				fmt.Sprintf("(assert (forall ((b Bytes)) (! (=> (= (len_Bytes b) 0) (%s b)) :pattern ((%s b)))))", venc, venc))
		} else {
			g.reg.decls = append(g.reg.decls,
				fmt.Sprintf("(assert (forall ((x %s)) (! (> (len_Bytes (%s x)) 0) :pattern ((%s x)))))", s, mar, mar))
		}
	}
	return
}

// flatSort: the sort of a message value with its directly referenced sub-messages inlined
// (pointer-to-struct fields become (isnil, value)); other reference fields stay references to immutable cells.
func (g *Gen) flatSort(t types.Type) string {
	s := g.reg.SortOf(t)
	si := g.reg.structs[s]
	if si == nil {
		return s
	}
	has := false
	for _, ft := range si.FTypes {
		if p, ok := ft.Underlying().(*types.Pointer); ok {
			if _, ok := p.Elem().Underlying().(*types.Struct); ok && g.reg.structs[g.reg.SortOf(p.Elem())] != nil {
				has = true
			}
		}
	}
	if !has {
		return s
	}
	fs := "Flat_" + s
	if g.reg.structs[fs] != nil {
		return fs
	}
	fi := &StructInfo{Sort: fs, Ctor: "mk_" + fs}
	var decl []string
	for i, ft := range si.FTypes {
		if p, ok := ft.Underlying().(*types.Pointer); ok {
			if _, ok := p.Elem().Underlying().(*types.Struct); ok && g.reg.structs[g.reg.SortOf(p.Elem())] != nil {
				us := g.reg.SortOf(p.Elem())
				fi.Fields = append(fi.Fields, fs+"."+si.FNames[i]+"IsNil", fs+"."+si.FNames[i])
				fi.FNames = append(fi.FNames, si.FNames[i]+"IsNil", si.FNames[i])
				fi.FTypes = append(fi.FTypes, types.Typ[types.Bool], p.Elem())
				fi.FSorts = append(fi.FSorts, "Bool", us)
				decl = append(decl, fmt.Sprintf("(%s.%sIsNil Bool)", fs, si.FNames[i]), fmt.Sprintf("(%s.%s %s)", fs, si.FNames[i], us))
				continue
			}
		}
		fi.Fields = append(fi.Fields, fs+"."+si.FNames[i])
		fi.FNames = append(fi.FNames, si.FNames[i])
		fi.FTypes = append(fi.FTypes, ft)
		fi.FSorts = append(fi.FSorts, si.FSorts[i])
		decl = append(decl, fmt.Sprintf("(%s.%s %s)", fs, si.FNames[i], si.FSorts[i]))
	}
	g.reg.structs[fs] = fi
	g.reg.decls = append(g.reg.decls, fmt.Sprintf("(declare-datatypes ((%s 0)) (((%s %s))))", fs, fi.Ctor, strings.Join(decl, " ")))
	return fs
}

func (g *Gen) flatZero(t types.Type) string {
	fs := g.flatSort(t)
	if !strings.HasPrefix(fs, "Flat_") {
		return g.zero(t)
	}
	return g.flattenWith(g.zero(t), t, func(string) string { return "" })
}

// flattenWith builds the flat value of a struct term; heapOf gives the current heap array for a sort ("" = all pointers nil).
func (g *Gen) flattenWith(term string, t types.Type, heapOf func(sort string) string) string {
	fs := g.flatSort(t)
	if !strings.HasPrefix(fs, "Flat_") {
		return term
	}
	si := g.reg.structs[g.reg.SortOf(t)]
	var args []string
	for i, ft := range si.FTypes {
		f := "(" + si.Fields[i] + " " + term + ")"
		if p, ok := ft.Underlying().(*types.Pointer); ok {
			if _, ok := p.Elem().Underlying().(*types.Struct); ok && g.reg.structs[g.reg.SortOf(p.Elem())] != nil {
				us := g.reg.SortOf(p.Elem())
				h := heapOf(us)
				if h == "" {
					args = append(args, "true", g.zero(p.Elem()))
				} else {
					args = append(args, "(= "+f+" 0)", "(ite (= "+f+" 0) "+g.zero(p.Elem())+" (select "+h+" "+f+"))")
				}
				continue
			}
		}
		args = append(args, f)
	}
	return "(mk_" + fs + " " + strings.Join(args, " ") + ")"
}

func dynElem(v Val) types.Type {
	if v.DynT != nil {
		if p, ok := v.DynT.Underlying().(*types.Pointer); ok {
			return p.Elem()
		}
	}
	if v.Ty != nil {
		if p, ok := v.Ty.Underlying().(*types.Pointer); ok {
			return p.Elem()
		}
	}
	return nil
}

func codecMarshal(must, lp bool) intrinsic {
	return func(fr *frame, com *ssa.CallCommon, args []Val, st *State, reach string) Val {
		ft := fr.ft
		g := ft.g
		ft.assumed["codec.Marshal (E-codec intrinsic)"] = true
		msg := args[len(args)-1]
		elem := dynElem(msg)
		rs := com.Signature().Results()
		if elem == nil {
			ft.unsupported("codec marshal of a value with unknown dynamic type in %s", fr.fn)
			return fr.havocResult(rs, st)
		}
		mar, _, _ := g.codecFns(elem, lp)
		ptr := fr.asValue(msg, st)
		if msg.DynT != nil {
			ptr = g.unboxIface(ptr, msg.DynT)
		}
		ft.addObl(fr, "nil", fr.tag+"marshal", reach, "(not (= "+ptr+" 0))", "marshal of nil message", nil, nil)
		es := g.reg.SortOf(elem)
		h := ft.stateGet(st, "H|"+es, "(Array Int "+es+")")
		res := ft.fresh("mar", "Bytes")
		flat := g.flattenWith("(select "+h+" "+ptr+")", elem, func(srt string) string { return ft.stateGet(st, "H|"+srt, "(Array Int "+srt+")") })
		ft.fact("(= " + res + " (" + mar + " " + flat + "))")
		if must || rs.Len() == 1 {
			return Val{T: res, Ty: rs.At(0).Type()}
		}
		return Val{Ty: rs, Tuple: []Val{{T: res, Ty: rs.At(0).Type()}, {T: "(mk_Iface 0 0)", Ty: rs.At(1).Type()}}}
	}
}

func codecUnmarshal(must, lp bool) intrinsic {
	return func(fr *frame, com *ssa.CallCommon, args []Val, st *State, reach string) Val {
		ft := fr.ft
		g := ft.g
		ft.assumed["codec.Unmarshal (E-codec intrinsic)"] = true
		msg := args[len(args)-1]
		bz := fr.asValue(args[len(args)-2], st)
		elem := dynElem(msg)
		rs := com.Signature().Results()
		if elem == nil {
			ft.unsupported("codec unmarshal into a value with unknown dynamic type in %s", fr.fn)
			return fr.havocResult(rs, st)
		}
		_, unm, venc := g.codecFns(elem, lp)
		ptr := fr.asValue(msg, st)
		if msg.DynT != nil {
			ptr = g.unboxIface(ptr, msg.DynT)
		}
		ft.addObl(fr, "nil", fr.tag+"unmarshal", reach, "(not (= "+ptr+" 0))", "unmarshal into nil message", nil, nil)
		es := g.reg.SortOf(elem)
		hs := "(Array Int " + es + ")"
		h := ft.stateGet(st, "H|"+es, hs)
		nh := ft.fresh("h", hs)
		// gogoproto's generated Unmarshal does not reset the target: repeated/bytes fields are appended to or reuse the
		// backing array of what is already there. The contract therefore requires a zero-valued target.
		ft.addObl(fr, "pre", fr.tag+"Unmarshal.zeroTarget", reach, "(= (select "+h+" "+ptr+") "+g.zero(elem)+")", "Unmarshal into a message that is not freshly zeroed merges/aliases old content", nil, nil)
		decoded := fr.unflatten("("+unm+" "+bz+")", elem, st)
		h = ft.stateGet(st, "H|"+es, hs)
		if must {
			ft.addObl(fr, "pre", fr.tag+"MustUnmarshal.validEncoding", reach, "("+venc+" "+bz+")", "MustUnmarshal panics on bytes that are not a valid encoding", nil, nil)
			ft.fact("(= " + nh + " (store " + h + " " + ptr + " " + decoded + "))")
			ft.stateSet(fr, st, "H|"+es, hs, nh)
			return Val{T: "0", Ty: rs}
		}
		// error-returning: succeeds iff valid; on failure the target content is unspecified
		junk := ft.fresh("junk", es)
		ft.fact(fmt.Sprintf("(= %s (store %s %s (ite (%s %s) %s %s)))", nh, h, ptr, venc, bz, decoded, junk))
		ft.stateSet(fr, st, "H|"+es, hs, nh)
		errv := ft.fresh("uerr", "Iface")
		ft.fact(fmt.Sprintf("(= (= (itag %s) 0) (%s %s))", errv, venc, bz))
		return Val{T: errv, Ty: rs.At(0).Type()}
	}
}

// unflatten turns a flat message value into a struct value, allocating fresh cells for directly referenced sub-messages.
func (fr *frame) unflatten(flat string, t types.Type, st *State) string {
	g := fr.ft.g
	fs := g.flatSort(t)
	if !strings.HasPrefix(fs, "Flat_") {
		return flat
	}
	si := g.reg.structs[g.reg.SortOf(t)]
	var args []string
	for i, ft := range si.FTypes {
		name := si.FNames[i]
		if p, ok := ft.Underlying().(*types.Pointer); ok {
			if _, ok := p.Elem().Underlying().(*types.Struct); ok && g.reg.structs[g.reg.SortOf(p.Elem())] != nil {
				us := g.reg.SortOf(p.Elem())
				ref := fr.newRef(st)
				hs := "(Array Int " + us + ")"
				h := fr.ft.stateGet(st, "H|"+us, hs)
				nh := fr.ft.fresh("h", hs)
				fr.ft.fact("(= " + nh + " (store " + h + " " + ref + " (" + fs + "." + name + " " + flat + ")))")
				fr.ft.stateSet(fr, st, "H|"+us, hs, nh)
				args = append(args, "(ite ("+fs+"."+name+"IsNil "+flat+") 0 "+ref+")")
				continue
			}
		}
		args = append(args, "("+fs+"."+name+" "+flat+")")
	}
	return "(" + si.Ctor + " " + strings.Join(args, " ") + ")"
}

func (g *Gen) codecFnsSort(sort string, t types.Type, lp bool) (string, string, string) { return g.codecFns(t, lp) }

// newAnyWithValue: codectypes.NewAnyWithValue(&msg) packs the encoding of msg into a fresh, immutable Any cell:
// anyBytes(result) == mar(msg). It fails only for a nil interface (read from codec/types/any.go).
func newAnyWithValue(fr *frame, com *ssa.CallCommon, args []Val, st *State, reach string) Val {
	ft := fr.ft
	g := ft.g
	ft.assumed["codectypes.NewAnyWithValue (E-codec intrinsic)"] = true
	rs := com.Signature().Results()
	msg := args[0]
	elem := dynElem(msg)
	sf := g.db.Funcs["anyBytes"]
	if elem == nil || msg.DynT == nil || sf == nil {
		ft.unsupported("NewAnyWithValue of a value with unknown dynamic type in %s", fr.fn)
		return fr.havocResult(rs, st)
	}
	g.declareSpecFunc(sf)
	mar, _, _ := g.codecFns(elem, false)
	ptr := g.unboxIface(fr.asValue(msg, st), msg.DynT)
	ft.addObl(fr, "nil", fr.tag+"NewAnyWithValue", reach, "(not (= "+ptr+" 0))", "NewAnyWithValue of nil message", nil, nil)
	es := g.reg.SortOf(elem)
	h := ft.stateGet(st, "H|"+es, "(Array Int "+es+")")
	flat := g.flattenWith("(select "+h+" "+ptr+")", elem, func(srt string) string { return ft.stateGet(st, "H|"+srt, "(Array Int "+srt+")") })
	ref := fr.newRef(st)
	ft.fact("(= (sf_anyBytes " + ref + ") (" + mar + " " + flat + "))")
	return Val{Ty: rs, Tuple: []Val{{T: ref, Ty: rs.At(0).Type()}, {T: "(mk_Iface 0 0)", Ty: rs.At(1).Type()}}}
}
