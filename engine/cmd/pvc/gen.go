package main

// Gen: global generator context (program, sorts, contract DB, literals).

import (
	"fmt"
	"regexp"
	"go/types"
	"os"
	"path/filepath"
	"sort"
	"strings"

	"golang.org/x/tools/go/packages"
	"golang.org/x/tools/go/ssa"
	"golang.org/x/tools/go/ssa/ssautil"
)

type Gen struct {
	prog      *ssa.Program
	pkgs      []*packages.Package
	allPkgs   map[string]*packages.Package
	reg       *SortReg
	db        *SpecDB
	strlits   map[string]string
	litDecls  []string
	litOrder  []string
	sfDecl    map[string]bool
	sfDecls   []string
	seqLits   map[string]bool
	zeroFns   map[string]bool
	repoDir   string
	verifDir  string
	tier      string
	funcIndex map[string]*ssa.Function
	declInfos []declInfo
	wGlobals  map[string]bool
	declNames map[string]bool
}

// verifiedDeps: dependency packages some of whose functions are verified (not merely assumed): their bodies are built too.
var verifiedDeps = map[string]bool{"github.com/cosmos/cosmos-sdk/x/nft/keeper": true}

func LoadGen(repoDir, verifDir string, patterns []string, overlay map[string][]byte) (*Gen, error) {
	cfg := &packages.Config{Mode: packages.LoadAllSyntax, Dir: repoDir, BuildFlags: []string{"-tags=verif"}, Overlay: overlay,
		Env: append(os.Environ(), "GOFLAGS=-mod=mod", "GOPROXY=off", "GOSUMDB=off", "GOTOOLCHAIN=local")}
	pkgs, err := packages.Load(cfg, patterns...)
	if err != nil {
		return nil, err
	}
	nerr := 0
	packages.Visit(pkgs, nil, func(p *packages.Package) {
		if strings.HasPrefix(p.PkgPath, repoPrefix) {
			for _, e := range p.Errors {
				fmt.Fprintln(os.Stderr, "load error:", e)
				nerr++
			}
		}
	})
	if nerr > 0 {
		return nil, fmt.Errorf("%d package load errors (the tree does not compile with -tags verif)", nerr)
	}
	prog, _ := ssautil.AllPackages(pkgs, ssa.InstantiateGenerics|ssa.GlobalDebug)
	g := &Gen{prog: prog, pkgs: pkgs, reg: NewSortReg(), db: NewSpecDB(), strlits: map[string]string{}, sfDecl: map[string]bool{},
		seqLits: map[string]bool{}, zeroFns: map[string]bool{}, repoDir: repoDir, verifDir: verifDir, allPkgs: map[string]*packages.Package{},
		funcIndex: map[string]*ssa.Function{}}
	packages.Visit(pkgs, nil, func(p *packages.Package) { g.allPkgs[p.PkgPath] = p })
	for _, sp := range prog.AllPackages() {
		if strings.HasPrefix(sp.Pkg.Path(), repoPrefix) || verifiedDeps[sp.Pkg.Path()] {
			sp.Build()
		}
	}
	dirPkg := map[string]string{}
	for path, p := range g.allPkgs {
		if strings.HasPrefix(path, repoPrefix) && len(p.GoFiles) > 0 {
			dirPkg[filepath.Dir(p.GoFiles[0])] = path
		}
	}
	err = g.db.LoadAll(repoDir, filepath.Join(verifDir, "contracts"), func(dir string) string {
		if p, ok := dirPkg[dir]; ok {
			return p
		}
		rel, _ := filepath.Rel(repoDir, dir)
		return repoPrefix + "/" + filepath.ToSlash(rel)
	})
	if err != nil {
		return nil, err
	}
	// resolve "@T" specialised contracts: re-key them as <func>@<dynamic type>
	for k, c := range g.db.Contracts {
		if c.SpecDynSrc == "" {
			continue
		}
		var rerr error
		func() {
			defer func() {
				if r := recover(); r != nil {
					rerr = fmt.Errorf("%v", r)
				}
			}()
			c.SpecDyn = g.resolveType(c.SpecDynSrc, c.File, g.filePkg(c.File)).Go
		}()
		delete(g.db.Contracts, k)
		if rerr != nil || c.SpecDyn == nil {
			continue // the type's package is not loaded in this run
		}
		c.Key = c.BaseKey + "@" + c.SpecDyn.String()
		g.db.Contracts[c.Key] = c
	}
	return g, nil
}

func (g *Gen) findPackage(path string) *types.Package {
	if p, ok := g.allPkgs[path]; ok {
		return p.Types
	}
	// allow short repo-relative paths
	if p, ok := g.allPkgs[repoPrefix+"/"+path]; ok {
		return p.Types
	}
	return nil
}

// FindFunc resolves a contract key to an SSA function.
func (g *Gen) FindFunc(key string) *ssa.Function {
	if f, ok := g.funcIndex[key]; ok {
		return f
	}
	if len(g.funcIndex) == 0 {
		for fn := range ssautil.AllFunctions(g.prog) {
			if fn.Pkg != nil && strings.HasPrefix(fn.Pkg.Pkg.Path(), repoPrefix) || fn.Synthetic == "" {
				g.funcIndex[fn.String()] = fn
			}
		}
		// methods and package members of repo packages (AllFunctions only reaches roots it can find)
		for _, sp := range g.prog.AllPackages() {
			if !strings.HasPrefix(sp.Pkg.Path(), repoPrefix) {
				continue
			}
			for _, m := range sp.Members {
				switch mm := m.(type) {
				case *ssa.Function:
					g.funcIndex[mm.String()] = mm
					for _, an := range mm.AnonFuncs {
						g.funcIndex[an.String()] = an
					}
				case *ssa.Type:
					for _, t := range []types.Type{mm.Type(), types.NewPointer(mm.Type())} {
						ms := g.prog.MethodSets.MethodSet(t)
						for i := 0; i < ms.Len(); i++ {
							if f := g.prog.MethodValue(ms.At(i)); f != nil {
								if _, dup := g.funcIndex[f.String()]; !dup || f.Synthetic == "" {
									g.funcIndex[f.String()] = f
								}
								for _, an := range f.AnonFuncs {
									g.funcIndex[an.String()] = an
								}
							}
						}
					}
				}
			}
		}
	}
	return g.funcIndex[key]
}

func (g *Gen) strLit(s string) string {
	if s == "" {
		return "emptystr"
	}
	if n, ok := g.strlits[s]; ok {
		return n
	}
	n := fmt.Sprintf("lit%d", len(g.strlits))
	g.strlits[s] = n
	g.litOrder = append(g.litOrder, s)
	return n
}

func trunc(s string, n int) string {
	if len(s) > n {
		return s[:n] + "..."
	}
	return s
}

var litRe = regexp.MustCompile(`\blit[0-9]+\b`)

// literalFacts declares the string literals mentioned in the query text: their length, their bytes
// (short literals only) and pairwise distinctness.
func (g *Gen) literalFacts(query string) []string {
	used := map[string]bool{}
	for _, m := range litRe.FindAllString(query, -1) {
		used[m] = true
	}
	var out, ns []string
	for _, s := range g.litOrder {
		n := g.strlits[s]
		if !used[n] {
			continue
		}
		ns = append(ns, n)
		out = append(out, fmt.Sprintf("(declare-const %s Str) ; %q", n, trunc(s, 40)))
		out = append(out, fmt.Sprintf("(assert (= (len_Str %s) %d))", n, len(s)))
		if len(s) <= 12 {
			for i := 0; i < len(s); i++ {
				out = append(out, fmt.Sprintf("(assert (= (at_Str %s %d) %d))", n, i, s[i]))
			}
		}
	}
	if len(ns) > 1 {
		out = append(out, "(assert (distinct "+strings.Join(ns, " ")+"))")
	}
	return out
}

// seqLit builds the term for a literal sequence with the given element terms.
func (g *Gen) seqLit(seqSort string, elems []string) string {
	si := g.reg.seqs[seqSort]
	if si == nil {
		efail("seqLit: %s is not a sequence sort", seqSort)
	}
	n := len(elems)
	fn := fmt.Sprintf("lit%d_%s", n, seqSort)
	if !g.seqLits[fn] {
		g.seqLits[fn] = true
		var ps, as []string
		for i := 0; i < n; i++ {
			ps = append(ps, fmt.Sprintf("(e%d %s)", i, si.Elem))
			as = append(as, fmt.Sprintf("e%d", i))
		}
		if n == 0 {
			g.reg.decls = append(g.reg.decls, fmt.Sprintf("(declare-const %s %s)", fn, seqSort),
				fmt.Sprintf("(assert (= (%s %s) 0))", si.Len, fn), fmt.Sprintf("(assert (not (%s %s)))", si.IsNil, fn))
		} else {
			var sorts []string
			for i := 0; i < n; i++ {
				sorts = append(sorts, si.Elem)
			}
			app := "(" + fn + " " + strings.Join(as, " ") + ")"
			g.reg.decls = append(g.reg.decls, fmt.Sprintf("(declare-fun %s (%s) %s)", fn, strings.Join(sorts, " "), seqSort))
			var cs []string
			cs = append(cs, fmt.Sprintf("(= (%s %s) %d)", si.Len, app, n), fmt.Sprintf("(not (%s %s))", si.IsNil, app))
			for i := 0; i < n; i++ {
				cs = append(cs, fmt.Sprintf("(= (%s %s %d) e%d)", si.At, app, i, i))
			}
			body := "(and " + strings.Join(cs, " ") + ")"
			if seqSort == "Bytes" || seqSort == "Str" {
				var rng []string
				for i := 0; i < n; i++ {
					rng = append(rng, fmt.Sprintf("(<= 0 e%d) (< e%d 256)", i, i))
				}
				body = "(=> (and " + strings.Join(rng, " ") + ") " + body + ")"
			}
			g.reg.decls = append(g.reg.decls, fmt.Sprintf("(assert (forall (%s) (! %s :pattern (%s))))", strings.Join(ps, " "), body, app))
			// a prefix of a literal is the shorter literal: s[0:k] of {e0..en-1} is {e0..ek-1}
			if seqSort != "Bytes" && seqSort != "Str" && n <= 4 && si.Sub != "" {
				for k := 1; k < n; k++ {
					short := g.seqLit(seqSort, as[:k])
					sub := fmt.Sprintf("(%s %s 0 %d)", si.Sub, app, k)
					g.reg.decls = append(g.reg.decls, fmt.Sprintf("(assert (forall (%s) (! (= %s %s) :pattern (%s))))", strings.Join(ps, " "), sub, short, sub))
				}
			}
		}
	}
	if n == 0 {
		return fn
	}
	return "(" + fn + " " + strings.Join(elems, " ") + ")"
}

// zeros returns a sequence of n zero elements.
func (g *Gen) zeros(seqSort, n string, elemZero string) string {
	si := g.reg.seqs[seqSort]
	fn := "zeros_" + seqSort
	if !g.zeroFns[fn] {
		g.zeroFns[fn] = true
		g.reg.decls = append(g.reg.decls, fmt.Sprintf("(declare-fun %s (Int) %s)", fn, seqSort),
			fmt.Sprintf("(assert (forall ((n Int)) (! (=> (>= n 0) (and (= (%s (%s n)) n) (not (%s (%s n))))) :pattern ((%s n)))))", si.Len, fn, si.IsNil, fn, fn),
			fmt.Sprintf("(assert (forall ((n Int) (i Int)) (! (=> (and (<= 0 i) (< i n)) (= (%s (%s n) i) %s)) :pattern ((%s (%s n) i)))))", si.At, fn, elemZero, si.At, fn))
	}
	return "(" + fn + " " + n + ")"
}

// zero value of a Go type as an SMT term.
func (g *Gen) zero(t types.Type) string {
	s := g.reg.SortOf(t)
	switch {
	case s == "Int":
		return "0"
	case s == "Bool":
		return "false"
	case s == "Real":
		return "0.0"
	case s == "Iface":
		return "(mk_Iface 0 0)"
	case s == "Str":
		return "emptystr"
	case s == "Bytes":
		return "nil_Bytes"
	}
	if si, ok := g.reg.seqs[s]; ok {
		return si.Nil
	}
	if si, ok := g.reg.structs[s]; ok {
		if len(si.Fields) == 0 {
			return si.Ctor
		}
		var as []string
		for _, ft := range si.FTypes {
			as = append(as, g.zero(ft))
		}
		return "(" + si.Ctor + " " + strings.Join(as, " ") + ")"
	}
	if at, ok := t.Underlying().(*types.Array); ok {
		z := "zeroarr_" + mangle(s)
		if !g.zeroFns[z] {
			g.zeroFns[z] = true
			ez := g.zero(at.Elem())
			g.reg.decls = append(g.reg.decls, fmt.Sprintf("(declare-const %s %s)", z, s),
				fmt.Sprintf("(assert (forall ((i Int)) (! (= (select %s i) %s) :pattern ((select %s i)))))", z, ez, z))
		}
		return z
	}
	// opaque sort: a fixed zero constant
	z := "zero_" + mangle(s)
	if !g.zeroFns[z] {
		g.zeroFns[z] = true
		g.reg.decls = append(g.reg.decls, fmt.Sprintf("(declare-const %s %s)", z, s))
	}
	return z
}

func (g *Gen) unboxIface(iface string, t types.Type) string {
	if _, ok := t.Underlying().(*types.Pointer); ok {
		return "(ipl " + iface + ")"
	}
	s := g.reg.SortOf(t)
	if s == "Int" {
		return "(ipl " + iface + ")"
	}
	_, unbox := g.reg.Box(s)
	return "(" + unbox + " (ipl " + iface + "))"
}

func (g *Gen) boxIface(term string, t types.Type) string {
	tag := g.reg.Tag(t)
	if _, ok := t.Underlying().(*types.Pointer); ok {
		return fmt.Sprintf("(mk_Iface %d %s)", tag, term)
	}
	s := g.reg.SortOf(t)
	if s == "Int" {
		return fmt.Sprintf("(mk_Iface %d %s)", tag, term)
	}
	box, _ := g.reg.Box(s)
	return fmt.Sprintf("(mk_Iface %d (%s %s))", tag, box, term)
}

func (g *Gen) declareSpecFunc(sf *SpecFunc) {
	if g.sfDecl[sf.Name] {
		return
	}
	g.sfDecl[sf.Name] = true
	var ps []string
	for _, p := range sf.Params {
		ps = append(ps, g.reg.STSort(g.resolveType(p.Type, sf.File, g.filePkg(sf.File))))
	}
	rs := g.reg.STSort(g.resolveType(sf.Ret, sf.File, g.filePkg(sf.File)))
	g.sfDecls = append(g.sfDecls, fmt.Sprintf("(declare-fun sf_%s (%s) %s)", sf.Name, strings.Join(ps, " "), rs))
}

func sortedStrs(m map[string]bool) []string {
	var ks []string
	for k := range m {
		ks = append(ks, k)
	}
	sort.Strings(ks)
	return ks
}

func (g *Gen) filePkg(file string) *types.Package {
	if p := g.db.FilePkg[file]; p != "" {
		return g.findPackage(p)
	}
	return nil
}

// writtenGlobals: package-level variables of the repository that some function other than a package initialiser assigns.
func (g *Gen) writtenGlobals() map[string]bool {
	if g.wGlobals != nil {
		return g.wGlobals
	}
	g.wGlobals = map[string]bool{}
	var rootGlobal func(v ssa.Value) *ssa.Global
	rootGlobal = func(v ssa.Value) *ssa.Global {
		switch x := v.(type) {
		case *ssa.Global:
			return x
		case *ssa.FieldAddr:
			return rootGlobal(x.X)
		case *ssa.IndexAddr:
			return rootGlobal(x.X)
		}
		return nil
	}
	for _, sp := range g.prog.AllPackages() {
		if !strings.HasPrefix(sp.Pkg.Path(), repoPrefix) && !verifiedDeps[sp.Pkg.Path()] {
			continue
		}
		var fns []*ssa.Function
		for _, m := range sp.Members {
			if f, ok := m.(*ssa.Function); ok {
				fns = append(fns, f)
				fns = append(fns, f.AnonFuncs...)
			}
			if t, ok := m.(*ssa.Type); ok {
				for _, tt := range []types.Type{t.Type(), types.NewPointer(t.Type())} {
					ms := g.prog.MethodSets.MethodSet(tt)
					for i := 0; i < ms.Len(); i++ {
						if f := g.prog.MethodValue(ms.At(i)); f != nil {
							fns = append(fns, f)
							fns = append(fns, f.AnonFuncs...)
						}
					}
				}
			}
		}
		for _, f := range fns {
			if f.Name() == "init" || strings.HasPrefix(f.Name(), "init#") || f.Synthetic != "" {
				continue
			}
			for _, b := range f.Blocks {
				for _, in := range b.Instrs {
					if st, ok := in.(*ssa.Store); ok {
						if gl := rootGlobal(st.Addr); gl != nil {
							g.wGlobals["G|"+gl.Pkg.Pkg.Path()+"."+gl.Name()] = true
						}
					}
					// the address of the variable (or of a part of it) escaping into anything but a load counts as a
					// possible write: calls, stores of the address, conversions to interface, slicing of an array
					switch x := in.(type) {
					case *ssa.UnOp, *ssa.FieldAddr, *ssa.IndexAddr, *ssa.DebugRef:
						_ = x
					default:
						for _, op := range in.Operands(nil) {
							if op == nil || *op == nil {
								continue
							}
							if st, ok := in.(*ssa.Store); ok && *op == st.Addr {
								continue
							}
							if gl := rootGlobal(*op); gl != nil {
								g.wGlobals["G|"+gl.Pkg.Pkg.Path()+"."+gl.Name()] = true
							}
						}
					}
				}
			}
		}
	}
	return g.wGlobals
}
