package main

// SMT query assembly and the solver portfolio.

import (
	"bytes"

	"context"
	"fmt"
	"os"
	"os/exec"
	"path/filepath"
	"regexp"
	"strings"
	"sync"
	"time"
)

type SolveResult struct {
	Status  string // unsat, sat, unknown, timeout, error
	Solver  string
	Secs    float64
	Output  string
	All     map[string]string
	Size    int
	Model   string
}

var streqDecl = []string{
	// Go string equality is content equality; Str values are pure contents (no nil flag), so it is SMT equality
	"(define-fun streq ((a Str) (b Str)) Bool (= a b))",
	"(declare-fun sdiff (Str Str) Int)",
	"(assert (forall ((a Str) (b Str)) (! (=> (not (= a b)) (or (not (= (len_Str a) (len_Str b))) (and (<= 0 (sdiff a b)) (< (sdiff a b) (len_Str a)) (not (= (at_Str a (sdiff a b)) (at_Str b (sdiff a b))))))) :pattern ((sdiff a b)))))",
}

var sfRe = regexp.MustCompile(`sf_[A-Za-z0-9_]+`)

// axiomTerms evaluates the axioms (and already-proved lemmas) usable in this FT.
type axTerm struct {
	ax   *Axiom
	term string
	syms map[string]bool
}

func (ft *FT) axiomTerms(upTo *Axiom) []axTerm {
	var out []axTerm
	for _, ax := range ft.g.db.Axioms {
		if ax == upTo {
			break
		}
		env := &Env{ft: ft, vars: map[string]SV{}, st: nil, old: nil, file: ax.File, bound: map[string]bool{}}
		if ax.Pkg != "" {
			env.pkg = ft.g.findPackage(ax.Pkg)
		}
		stmt := ax.E
		if ax.Lemma {
			stmt = lemmaStatement(ax)
		}
		t, err := env.EvalBool(stmt)
		if err != nil {
			// typically: the axiom talks about a package that is not loaded for this check; it cannot be relevant then
			if ft.axSkipped == nil {
				ft.axSkipped = map[string]string{}
			}
			ft.axSkipped[ax.Name] = err.Error()
			continue
		}
		syms := map[string]bool{}
		for _, s := range sfRe.FindAllString(t, -1) {
			syms[s] = true
		}
		out = append(out, axTerm{ax, t, syms})
	}
	return out
}

// BuildQuery assembles the SMT-LIB text for one obligation.
func (ft *FT) BuildQuery(o *Obl, axs []axTerm) string { return ft.buildQueryOpt(o, axs, true) }

func (ft *FT) buildQueryOpt(o *Obl, axs []axTerm, slice bool) string {
	var body bytes.Buffer
	facts := ft.facts[:o.NFacts]
	if slice {
		facts = ft.sliceFacts(o)
	}
	for _, f := range facts {
		body.WriteString("(assert " + f + ")\n")
	}
	for _, h := range o.Hints {
		body.WriteString("(assert " + h + ")\n")
	}
	for _, x := range o.Extra {
		body.WriteString("(assert " + x + ")\n")
	}
	body.WriteString("(assert " + o.Guard + ")\n")
	body.WriteString("(assert (not " + o.Goal + "))\n")
	// relevance filter for axioms
	live := map[string]bool{}
	for _, s := range sfRe.FindAllString(body.String(), -1) {
		live[s] = true
	}
	included := make([]bool, len(axs))
	for changed := true; changed; {
		changed = false
		for i, a := range axs {
			if included[i] {
				continue
			}
			inc := len(a.syms) == 0
			for s := range a.syms {
				if live[s] {
					inc = true
				}
			}
			if inc && (a.ax.Lemma || strings.HasPrefix(a.ax.Name, "def_") || strings.HasPrefix(a.ax.Name, "opt_")) && !ft.visibleFor(o, a.ax) {
				inc = false
			}
			if inc {
				included[i] = true
				changed = true
				for s := range a.syms {
					live[s] = true
				}
			}
		}
	}
	var mid bytes.Buffer
	for _, d := range ft.decls {
		mid.WriteString(d + "\n")
	}
	for i, a := range axs {
		if included[i] {
			ft.mu.Lock()
			ft.axUsed[a.ax.Name] = true
			ft.mu.Unlock()
			mid.WriteString("; axiom " + a.ax.Name + "\n(assert " + a.term + ")\n")
		}
	}
	var q bytes.Buffer
	q.WriteString("(set-option :produce-models true)\n(set-logic ALL)\n")
	for _, d := range ft.g.pruneDecls(mid.String() + body.String() + strings.Join(ft.g.sfDecls, "\n") + strings.Join(streqDecl, "\n")) {
		q.WriteString(d + "\n")
	}
	for _, d := range streqDecl {
		q.WriteString(d + "\n")
	}
	for _, d := range ft.g.sfDecls {
		q.WriteString(d + "\n")
	}
	for _, d := range ft.g.literalFacts(mid.String() + body.String() + strings.Join(ft.g.pruneDecls(mid.String()+body.String()+strings.Join(ft.g.sfDecls, "\n")+strings.Join(streqDecl, "\n")), "\n")) {
		q.WriteString(d + "\n")
	}
	q.Write(mid.Bytes())
	q.Write(body.Bytes())
	q.WriteString("(check-sat)\n")
	return q.String()
}

type solverSpec struct {
	name string
	args func(file string, timeoutS int) []string
}

var solvers = []solverSpec{
	{"z3-5.1.0/noauto", func(f string, t int) []string {
		return []string{"z3-new", "-smt2", "smt.auto_config=false", fmt.Sprintf("-T:%d", t), f}
	}},
	{"z3-5.1.0", func(f string, t int) []string { return []string{"z3-new", "-smt2", fmt.Sprintf("-T:%d", t), f} }},
	{"z3-5.1.0/simplex", func(f string, t int) []string {
		return []string{"z3-new", "-smt2", "smt.arith.solver=2", fmt.Sprintf("-T:%d", t), f}
	}},
	{"z3-4.8.12", func(f string, t int) []string { return []string{"/usr/bin/z3", "-smt2", fmt.Sprintf("-T:%d", t), f} }},
	{"z3-4.8.12/noauto", func(f string, t int) []string {
		return []string{"/usr/bin/z3", "-smt2", "smt.auto_config=false", fmt.Sprintf("-T:%d", t), f}
	}},
	{"cvc5-1.0", func(f string, t int) []string {
		return []string{"cvc5", "--incremental", fmt.Sprintf("--tlimit=%d", t*1000), f}
	}},
}

// Solve races the portfolio on one query.
// coverSolvers: vacuity covers only look for a quick `unsat` (a contradiction among the assumptions); three configurations, 2 s.
var coverSolvers = []solverSpec{solvers[0], solvers[5]}

func Solve(query string, dir string, name string, timeoutS int, wantModel bool) SolveResult {
	return solveWith(solvers, query, dir, name, timeoutS, wantModel)
}

// seedSolvers: a last-resort stage for obligations the default portfolio does not decide (solver heuristics are chaotic).
var seedSolvers = []solverSpec{
	{"z3-5.1.0/seed1", func(f string, t int) []string { return []string{"z3-new", "-smt2", "smt.random_seed=1", "sat.random_seed=1", fmt.Sprintf("-T:%d", t), f} }},
	{"z3-5.1.0/seed2", func(f string, t int) []string { return []string{"z3-new", "-smt2", "smt.random_seed=2", "smt.auto_config=false", fmt.Sprintf("-T:%d", t), f} }},
	{"z3-5.1.0/seed3", func(f string, t int) []string { return []string{"z3-new", "-smt2", "smt.random_seed=3", "smt.arith.solver=2", fmt.Sprintf("-T:%d", t), f} }},
	{"z3-4.8.12/seed1", func(f string, t int) []string { return []string{"/usr/bin/z3", "-smt2", "smt.random_seed=1", fmt.Sprintf("-T:%d", t), f} }},
	{"z3-4.8.12/seed2", func(f string, t int) []string { return []string{"/usr/bin/z3", "-smt2", "smt.random_seed=2", "smt.auto_config=false", fmt.Sprintf("-T:%d", t), f} }},
	{"z3-4.8.12/seed3", func(f string, t int) []string { return []string{"/usr/bin/z3", "-smt2", "smt.random_seed=3", "smt.qi.eager_threshold=20", fmt.Sprintf("-T:%d", t), f} }},
}

func solveWith(solvers []solverSpec, query string, dir string, name string, timeoutS int, wantModel bool) SolveResult {
	file := filepath.Join(dir, mangle(name)+".smt2")
	if len(file) > 240 {
		file = filepath.Join(dir, fmt.Sprintf("q%x.smt2", hashStr(name)))
	}
	os.WriteFile(file, []byte(query), 0o644)
	ctx, cancel := context.WithTimeout(context.Background(), time.Duration(timeoutS+2)*time.Second)
	defer cancel()
	type r struct {
		solver, out string
		secs        float64
	}
	ch := make(chan r, len(solvers))
	var wg sync.WaitGroup
	for _, s := range solvers {
		wg.Add(1)
		go func(s solverSpec) {
			defer wg.Done()
			a := s.args(file, timeoutS)
			t0 := time.Now()
			cmd := exec.CommandContext(ctx, a[0], a[1:]...)
			out, _ := cmd.CombinedOutput()
			ch <- r{s.name, string(out), time.Since(t0).Seconds()}
		}(s)
	}
	res := SolveResult{Status: "unknown", All: map[string]string{}, Size: len(query)}
	got := 0
	for got < len(solvers) {
		x := <-ch
		got++
		first := ""
		for _, ln := range strings.Split(strings.TrimSpace(x.out), "\n") {
			ln = strings.TrimSpace(ln)
			if ln == "" || strings.HasPrefix(ln, "WARNING") {
				continue
			}
			first = ln
			break
		}
		res.All[x.solver] = fmt.Sprintf("%s (%.2fs)", trunc(first, 120), x.secs)
		if first == "unsat" {
			res.Status, res.Solver, res.Secs, res.Output = "unsat", x.solver, x.secs, x.out
			cancel()
			break
		}
		if first == "sat" && res.Status != "sat" {
			res.Status, res.Solver, res.Secs, res.Output = "sat", x.solver, x.secs, x.out
		} else if res.Status == "unknown" {
			if strings.Contains(first, "error") || strings.HasPrefix(first, "(error") {
				res.Output += x.solver + ": " + trunc(x.out, 300) + "\n"
				if res.Solver == "" {
					res.Status = "unknown"
				}
			} else {
				res.Output += x.solver + ": " + first + "\n"
			}
			res.Secs = x.secs
		}
	}
	go func() { wg.Wait() }()
	if res.Status == "sat" && wantModel {
		// ask z3-new for a model
		mq := query + "(get-model)\n"
		mf := file + ".model.smt2"
		os.WriteFile(mf, []byte(mq), 0o644)
		out, _ := exec.Command("z3-new", "-smt2", fmt.Sprintf("-T:%d", timeoutS), mf).CombinedOutput()
		res.Model = string(out)
	}
	return res
}

func hashStr(s string) uint32 {
	var h uint32 = 2166136261
	for i := 0; i < len(s); i++ {
		h ^= uint32(s[i])
		h *= 16777619
	}
	return h
}

// visible: lemmas and definitional axioms are used only by proofs in the same contract file, or on request (uses).
func (ft *FT) visibleFor(o *Obl, ax *Axiom) bool {
	if o != nil && o.File != "" && ft.lemma == nil && ft.c != nil && o.File != ft.c.File {
		// clause inherited from another contract file (loop invariant of the generic contract in a
		// specialised proof): prove it with the lemmas of the file it was written in
		if ax.File == o.File {
			return true
		}
		if ft.c.BaseKey != "" {
			if bc := ft.g.db.Contracts[ft.c.BaseKey]; bc != nil {
				for _, u := range bc.Uses {
					if u == ax.Name || "def_"+u == ax.Name {
						return true
					}
				}
			}
		}
		return false
	}
	return ft.visible(ax)
}

func (ft *FT) visible(ax *Axiom) bool {
	file := ""
	var uses []string
	if ft.lemma != nil {
		file = ft.lemma.File
		uses = ft.g.db.FileUses[file]
	} else if ft.c != nil {
		file = ft.c.File
		uses = ft.c.Uses
	}
	if ax.File == file {
		return true
	}
	for _, u := range uses {
		if u == ax.Name || "def_"+u == ax.Name {
			return true
		}
	}
	return false
}

var symRe = regexp.MustCompile(`\|[^|]+\|`)

type factInfo struct {
	def  string   // defined constant for facts of the form (= |c| rhs)
	syms []string // all local symbols
	body []string // symbols other than control-flow predicates
}

func isCtl(sym string) bool {
	return strings.HasPrefix(sym, "|reach_") || strings.HasPrefix(sym, "|e_") || strings.HasPrefix(sym, "|ret!")
}

func (ft *FT) factInfos() []factInfo {
	ft.mu.Lock()
	defer ft.mu.Unlock()
	for len(ft.finfo) < len(ft.facts) {
		f := ft.facts[len(ft.finfo)]
		var fi factInfo
		fi.syms = symRe.FindAllString(f, -1)
		if strings.HasPrefix(f, "(= |") {
			end := strings.Index(f[3:], "| ")
			if end > 0 {
				fi.def = f[3 : 3+end+1]
			}
		}
		for _, sy := range fi.syms {
			if !isCtl(sy) {
				fi.body = append(fi.body, sy)
			}
		}
		ft.finfo = append(ft.finfo, fi)
	}
	return ft.finfo
}

// sliceFacts keeps the facts in the cone of influence of the obligation (dropping assumptions is always sound).
func (ft *FT) sliceFacts(o *Obl) []string {
	if os.Getenv("PVC_NOSLICE") != "" {
		return ft.facts[:o.NFacts]
	}
	infos := ft.factInfos()
	live := map[string]bool{}
	seed := o.Guard + " " + o.Goal + " " + strings.Join(o.Hints, " ") + " " + strings.Join(o.Extra, " ")
	for _, sy := range symRe.FindAllString(seed, -1) {
		live[sy] = true
	}
	inc := make([]bool, o.NFacts)
	for changed := true; changed; {
		changed = false
		for i := 0; i < o.NFacts; i++ {
			if inc[i] {
				continue
			}
			fi := infos[i]
			take := false
			if fi.def != "" && !isCtl(fi.def) {
				take = live[fi.def]
			} else if len(fi.syms) == 0 {
				take = true
			} else {
				probe := fi.body
				if fi.def != "" { // definition of a control predicate: only when that predicate is live
					probe = []string{fi.def}
				} else if len(probe) == 0 {
					probe = fi.syms
				}
				for _, sy := range probe {
					if live[sy] {
						take = true
						break
					}
				}
			}
			if take {
				inc[i] = true
				changed = true
				for _, sy := range fi.syms {
					live[sy] = true
				}
			}
		}
	}
	var out []string
	for i := 0; i < o.NFacts; i++ {
		if inc[i] {
			out = append(out, ft.facts[i])
		}
	}
	return out
}

var tokRe = regexp.MustCompile(`[A-Za-z_][A-Za-z0-9_.]*`)

type declInfo struct {
	text   string
	defs   []string
	refs   []string
	assert bool
}

// pruneDecls keeps the sort/function declarations and theory axioms that the query can reach.
var pruneMu sync.Mutex

func (g *Gen) pruneDecls(query string) []string {
	pruneMu.Lock()
	defer pruneMu.Unlock()
	decls := g.reg.Decls()
	if len(g.declInfos) != len(decls) {
		g.declInfos = nil
		g.declNames = map[string]bool{}
		for _, d := range decls {
			di := declInfo{text: d, assert: strings.HasPrefix(d, "(assert")}
			toks := tokRe.FindAllString(d, -1)
			switch {
			case strings.HasPrefix(d, "(declare-fun"), strings.HasPrefix(d, "(declare-const"), strings.HasPrefix(d, "(declare-sort"), strings.HasPrefix(d, "(define-fun"):
				if len(toks) > 2 {
					di.defs = []string{toks[2]}
				}
			case strings.HasPrefix(d, "(declare-datatypes"):
				for _, t := range toks[2:] {
					if t != "Int" && t != "Bool" && t != "Array" && t != "Real" {
						di.defs = append(di.defs, t)
					}
				}
			}
			for _, n := range di.defs {
				g.declNames[n] = true
			}
			g.declInfos = append(g.declInfos, di)
		}
		for i := range g.declInfos {
			di := &g.declInfos[i]
			seen := map[string]bool{}
			for _, t := range tokRe.FindAllString(di.text, -1) {
				if g.declNames[t] && !seen[t] {
					seen[t] = true
					di.refs = append(di.refs, t)
				}
			}
		}
	}
	live := map[string]bool{}
	for _, t := range tokRe.FindAllString(query, -1) {
		if g.declNames[t] {
			live[t] = true
		}
	}
	inc := make([]bool, len(g.declInfos))
	for changed := true; changed; {
		changed = false
		for i, di := range g.declInfos {
			if inc[i] {
				continue
			}
			take := false
			if di.assert {
				// an axiom is relevant when one of the specific (non-core) functions/constants it constrains is used;
				// axioms that only talk about the core sequence/byte-string vocabulary are relevant when that vocabulary is used
				specific := false
				for _, r := range di.refs {
					if g.isSortName(r) || isCoreSym(r) {
						continue
					}
					specific = true
					if live[r] {
						take = true
						break
					}
				}
				if !specific {
					for _, r := range di.refs {
						if live[r] && !g.isSortName(r) {
							take = true
							break
						}
					}
				}
			} else {
				for _, n := range di.defs {
					if live[n] {
						take = true
						break
					}
				}
			}
			if take {
				inc[i] = true
				changed = true
				for _, r := range di.refs {
					live[r] = true
				}
			}
		}
	}
	var out []string
	for i, di := range g.declInfos {
		if inc[i] {
			out = append(out, di.text)
		}
	}
	return out
}

func (g *Gen) isSortName(n string) bool {
	if n == "Str" || n == "Bytes" || n == "Iface" {
		return true
	}
	if _, ok := g.reg.seqs[n]; ok {
		return true
	}
	if _, ok := g.reg.structs[n]; ok {
		return true
	}
	return false
}

func isCoreSym(n string) bool {
	for _, p := range []string{"len_", "at_", "isnil_", "cat_", "sub_", "upd_", "nil_", "cnt_", "extd_"} {
		if strings.HasPrefix(n, p) {
			return true
		}
	}
	switch n {
	case "bcontent", "bnil", "mk_Bytes", "emptystr", "tobytes", "tostring", "mk_Iface", "itag", "ipl":
		return true
	}
	return false
}
