package main

// query.Paginate(prefixStore, pageRequest, onResult): the callback loop, cut like a source loop.
//
// Assumed (E-store, read from types/query/pagination.go): Paginate calls onResult(key, value) for a sequence of entries
// of the given (prefix) store - each entry present in the store under the store's prefix, each at most once, value being
// the stored value - stops at the first error the callback returns (returning that error), and otherwise returns a
// non-nil PageResponse and a nil error. WHICH entries form the page (offset, limit, key, reverse, count_total) is not
// modelled: the visited key list is an arbitrary duplicate-free list of present keys. Contracts can therefore state what
// every listed item is (soundness), not that a page is complete.
//
// Invariants come from the contract of the function that contains the call: `paginate N invariant expr`, where
// $i is the number of entries visited so far and $range[j] the j-th visited key (relative to the store's prefix).

import (
	"fmt"
	"go/types"
	"strings"

	"golang.org/x/tools/go/ssa"
)

func init() {
	intrinsics["github.com/cosmos/cosmos-sdk/types/query.Paginate"] = paginateIntrinsic
}

func (ft *FT) computePgMods() map[*ssa.Function]map[string]bool {
	out := map[*ssa.Function]map[string]bool{}
	for b, m := range ft.written {
		fn := b.Parent()
		if fn == nil || fn.Parent() == nil { // only closures (anonymous functions)
			continue
		}
		if out[fn] == nil {
			out[fn] = map[string]bool{}
		}
		for k := range m {
			out[fn][k] = true
		}
	}
	return out
}

func paginateIntrinsic(fr *frame, com *ssa.CallCommon, args []Val, st *State, reach string) Val {
	ft := fr.ft
	g := ft.g
	sig := com.Signature()
	if len(args) != 3 || args[2].Clo == nil || len(args[2].Clo.Fn.Blocks) == 0 {
		ft.unsupported("query.Paginate with a callback that is not a function literal in %s", fr.fn)
		fr.extCall("query.Paginate", reach)
		return fr.havocResult(sig.Results(), st)
	}
	clo := args[2].Clo
	ft.pgCount[fr.fn]++
	ord := ft.pgCount[fr.fn]
	ft.assumed["query.Paginate visits a duplicate-free list of entries present under the store's prefix and stops at the first callback error; which entries form the page is not modelled (E-store)"] = true
	kvs := fr.asValue(args[0], st)
	keys := ft.fresh("pgkeys", "Seq_Bytes")
	mkEnv := func(s *State, idx string) *Env {
		fr.atCall = true
		env := fr.invEnv(fr.curBlk, s)
		fr.atCall = false
		env.vars["$range"] = SV{keys, goT(typesSliceOfBytes())}
		env.vars["$kvs"] = SV{kvs, goT(com.Args[0].Type())}
		env.vars["$i"] = SV{idx, tInt}
		return env
	}
	evalSrc := func(env *Env, src string) string {
		e, err := ParseExpr(src)
		if err != nil {
			ft.unsupported("paginate model: %v", err)
			return "true"
		}
		t, err := env.EvalBool(e)
		if err != nil {
			ft.unsupported("paginate model: %v", err)
			return "true"
		}
		return t
	}
	// the visited keys: present, non-nil, pairwise different
	ft.fact("(=> " + reach + " " + evalSrc(mkEnv(st, "0"),
		"(forall j int :: {$range[j]} 0 <= j && j < len($range) ==> $range[j] != nil && kvHas[sk($kvs)][cat(pfx($kvs), $range[j])]) && (forall j1 int, j2 int :: {$range[j1], $range[j2]} 0 <= j1 && j1 < j2 && j2 < len($range) ==> $range[j1] != $range[j2])") + ")")
	var invs []*Clause
	if fr.c != nil && fr.c.Paginates != nil && fr.depth == 0 {
		invs = fr.c.Paginates[ord]
	}
	evalInv := func(cl *Clause, s *State, idx string) (string, []string, bool) {
		env := mkEnv(s, idx)
		var hints []string
		env.hints = &hints
		t, err := env.EvalBool(cl.E)
		if err != nil {
			ft.unsupported("paginate %d invariant %q in %s: %v", ord, cl.Src, fr.fn, err)
			return "", nil, false
		}
		return t, hints, true
	}
	// invariants on entry
	for i, cl := range invs {
		if t, hints, ok := evalInv(cl, st, "0"); ok {
			ft.addObl(fr, "inv-init", fmt.Sprintf("%sP%d.%d", fr.tag, ord, i+1), reach, t, cl.Src, cl.Tags, hints).File = cl.File
		}
	}
	pre := st.clone()
	havoc := func(s *State, tag string) {
		mods := ft.pgMods[clo.Fn]
		for _, k := range sortedStrs(mods) {
			if k == "$next" {
				continue
			}
			srt := ft.ssorts[k]
			if srt == "" {
				continue
			}
			s.vars[k] = ft.fresh("pg"+tag+"_"+mangle(k), srt)
			ft.noteWrite(fr.curBlk, k)
		}
		ox := ft.stateGet(s, "$next", "Int")
		nx := ft.fresh("next", "Int")
		ft.fact("(>= " + nx + " " + ox + ")")
		s.vars["$next"] = nx
	}
	// an arbitrary iteration
	body := pre.clone()
	havoc(body, "b")
	idx := ft.fresh("pgi", "Int")
	inBody := ft.fresh("pgbody", "Bool")
	ft.fact("(= " + inBody + " (and " + reach + " (<= 0 " + idx + ") (< " + idx + " (len_Seq_Bytes " + keys + "))))")
	for _, cl := range invs {
		if t, _, ok := evalInv(cl, body, idx); ok {
			ft.fact("(=> " + inBody + " " + t + ")")
		}
	}
	ft.covers = append(ft.covers, cover{fmt.Sprintf("%s#cover(paginate %d callback)", ft.name, ord), inBody, len(ft.facts)})
	keyT := "(at_Seq_Bytes " + keys + " " + idx + ")"
	valT := evalTerm(ft, mkEnv(body, idx), "kvVal[sk($kvs)][cat(pfx($kvs), $range[$i])]")
	cbArgs := []Val{{T: keyT, Ty: clo.Fn.Params[0].Type()}, {T: valT, Ty: clo.Fn.Params[1].Type()}}
	saveClo := fr.cloOverride
	fr.cloOverride = clo
	r := fr.inline(clo.Fn, nil, cbArgs, nil, body, inBody)
	fr.cloOverride = saveClo
	okIter := ft.fresh("pgok", "Bool")
	ft.fact("(= " + okIter + " (and " + inBody + " (= (itag " + r.T + ") 0)))")
	next := "(+ " + idx + " 1)"
	for i, cl := range invs {
		if t, hints, ok := evalInv(cl, body, next); ok {
			ft.addObl(fr, "inv-pres", fmt.Sprintf("%sP%d.%d", fr.tag, ord, i+1), okIter, t, cl.Src, cl.Tags, hints).File = cl.File
		}
	}
	// after the call: either every entry was visited (invariants at len(keys)) or the callback failed
	havoc(st, "x")
	failed := ft.fresh("pgfailed", "Bool")
	for _, cl := range invs {
		if t, _, ok := evalInv(cl, st, "(len_Seq_Bytes "+keys+")"); ok {
			ft.fact("(=> (and " + reach + " (not " + failed + ")) " + t + ")")
		}
	}
	rs := sig.Results()
	res := ft.fresh("pgres", g.reg.SortOf(rs.At(0).Type()))
	errv := ft.fresh("pgerr", "Iface")
	ft.fact("(=> " + reach + " (= (= (itag " + errv + ") 0) (not " + failed + ")))")
	ft.fact("(=> (and " + reach + " (not " + failed + ")) (> " + res + " 0))")
	ft.fact("(>= " + res + " 0)")
	return Val{Ty: rs, Tuple: []Val{{T: res, Ty: rs.At(0).Type()}, {T: errv, Ty: rs.At(1).Type()}}}
}

func evalTerm(ft *FT, env *Env, src string) string {
	e, err := ParseExpr(src)
	if err != nil {
		ft.unsupported("paginate model: %v", err)
		return "nil_Bytes"
	}
	var out string
	func() {
		defer func() {
			if r := recover(); r != nil {
				ft.unsupported("paginate model: %v", r)
				out = "nil_Bytes"
			}
		}()
		out = env.ev(e).T
	}()
	return out
}

var _ = strings.TrimSpace

func typesSliceOfBytes() types.Type {
	return types.NewSlice(types.NewSlice(types.Typ[types.Byte]))
}
