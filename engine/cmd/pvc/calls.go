package main

// Calls: builtins, contracts (modular), inlining, intrinsics, havoc.

import (
	"go/ast"
	"fmt"
	"go/types"
	"strings"

	"golang.org/x/tools/go/ssa"
)

const maxInlineDepth = 6

// call translates a call instruction. res is the SSA value receiving the result (nil for defer).
func (fr *frame) call(ci ssa.CallInstruction, res ssa.Value, st *State, reach string) {
	ft := fr.ft
	g := ft.g
	com := ci.Common()
	setRes := func(v Val) {
		if res != nil {
			fr.vals[res] = v
		}
	}
	var args []Val
	for _, a := range com.Args {
		args = append(args, fr.val(a))
	}
	sig := com.Signature()
	// the address of a package-level variable handed to a callee: the callee may mutate shared state (hidden state / race)
	if fr.fn.Name() != "init" {
		for _, a := range args {
			if a.P != nil && a.P.Global != "" && strings.HasPrefix(a.P.Global, "G|"+repoPrefix) {
				ft.addObl(fr, "global-write", fr.tag+strings.TrimPrefix(a.P.Global, "G|"+repoPrefix+"/")+":escapes", reach, "false",
					"passes the address of a package-level variable to a call (shared mutable state)", []string{"C09", "C20"}, nil)
			}
		}
	}
	// builtins
	if b, ok := com.Value.(*ssa.Builtin); ok {
		setRes(fr.builtin(b, com, args, st, reach, res))
		return
	}
	var callee *ssa.Function
	var recvDyn types.Type
	key := ""
	if com.IsInvoke() {
		recv := fr.val(com.Value)
		if recv.DynT != nil {
			// static dispatch
			ms := g.prog.MethodSets.MethodSet(recv.DynT)
			sel := ms.Lookup(com.Method.Pkg(), com.Method.Name())
			if sel != nil {
				callee = g.prog.MethodValue(sel)
				recvDyn = recv.DynT
				rt := fr.asValue(recv, st)
				args = append([]Val{{T: g.unboxIface(rt, recv.DynT), Ty: recv.DynT}}, args...)
			}
		}
		if callee == nil {
			// abstract interface method
			it := com.Value.Type()
			key = "(" + typeString2(it) + ")." + com.Method.Name()
			args = append([]Val{recv}, args...)
		}
	} else if sc := com.StaticCallee(); sc != nil {
		callee = sc
		if mc, ok := com.Value.(*ssa.MakeClosure); ok {
			_ = mc
		}
	} else if fn := fr.aliasedFunc(com.Value); fn != nil {
		// call through a package-level function variable that is a plain alias (var Wrap = errorsmod.Wrap)
		callee = fn
	} else {
		// call of a function value
		fv := fr.val(com.Value)
		if fv.Clo != nil {
			callee = fv.Clo.Fn
		} else {
			ft.havoced["dynamic call in "+fr.fn.String()] = true
			fr.extCall("dynamic call", reach)
			setRes(fr.havocResult(sig.Results(), st))
			return
		}
	}
	_ = recvDyn
	if callee != nil {
		key = callee.String()
		if com.IsInvoke() {
			sig = callee.Signature // named results of the concrete method
		}
	}
	// intrinsic?
	if h, ok := intrinsics[key]; ok {
		setRes(h(fr, com, args, st, reach))
		return
	}
	if h := intrinsicByPattern(key); h != nil {
		setRes(h(fr, com, args, st, reach))
		return
	}
	c := g.db.Contracts[key]
	// a contract specialised for the dynamic type of an interface argument takes precedence
	for _, a := range args {
		if a.DynT != nil {
			if c2 := g.db.Contracts[key+"@"+a.DynT.String()]; c2 != nil && !ft.verifyingSpec(c2) {
				c2.Used = true
				setRes(fr.modular(c2.Key, c2, callee, sig, args, st, reach))
				return
			}
		}
	}
	if callee != nil && callee.Synthetic != "" && c == nil && len(callee.Blocks) > 0 {
		// wrappers (pointer-receiver wrappers, bound methods, thunks): always inline
		setRes(fr.inline(callee, c, args, com, st, reach))
		return
	}
	if c != nil && c.DynInline && callee != nil && len(callee.Blocks) > 0 && fr.depth < maxInlineDepth && !ft.onStack(callee) {
		for _, a := range args {
			if a.DynT != nil {
				setRes(fr.inline(callee, c, args, com, st, reach))
				return
			}
		}
	}
	if c != nil && !c.Inline {
		c.Used = true
		setRes(fr.modular(key, c, callee, sig, args, st, reach))
		return
	}
	if callee != nil && c == nil && isGeneratedPB(g, callee) && !strings.HasPrefix(callee.Name(), "Get") {
		// generated protobuf code is not verified (E-codec): only its getters are inlined; anything else needs an assumed contract
		ft.havoced[key+" (generated *.pb.go, assumed total and effect-free)"] = true
		fr.extCall(key, reach)
		setRes(fr.havocResult(sig.Results(), st))
		return
	}
	if callee != nil && isRepoFunc(callee) && len(callee.Blocks) > 0 && (c == nil || c.Inline) {
		if fr.depth < maxInlineDepth && !ft.onStack(callee) {
			setRes(fr.inline(callee, c, args, com, st, reach))
			return
		}
		ft.unsupported("call to %s needs a contract (inline depth/recursion)", key)
	}
	// closures created in this function and passed elsewhere are handled by intrinsics; here: unknown external
	ft.havoced[key] = true
	fr.extCall(key, reach)
	setRes(fr.havocResult(sig.Results(), st))
}

func typeString2(t types.Type) string {
	if n, ok := t.(*types.Named); ok && n.Obj().Pkg() != nil {
		return n.Obj().Pkg().Path() + "." + n.Obj().Name()
	}
	return t.String()
}

func (ft *FT) onStack(fn *ssa.Function) bool {
	for _, s := range ft.stack {
		if s == fn {
			return true
		}
	}
	return false
}

func (fr *frame) havocResult(rs *types.Tuple, st *State) Val {
	ft := fr.ft
	mk := func(t types.Type) Val {
		c := ft.fresh("hv", ft.g.reg.SortOf(t))
		ft.typeInvLoop(c, t)
		if _, ok := t.Underlying().(*types.Pointer); ok {
			ft.fact("(>= " + c + " 0)")
		}
		return Val{T: c, Ty: t}
	}
	switch rs.Len() {
	case 0:
		return Val{T: "0", Ty: rs}
	case 1:
		return mk(rs.At(0).Type())
	}
	var tv []Val
	for i := 0; i < rs.Len(); i++ {
		tv = append(tv, mk(rs.At(i).Type()))
	}
	return Val{Ty: rs, Tuple: tv}
}

// modular applies a callee's contract at a call site.
func (fr *frame) modular(key string, c *Contract, callee *ssa.Function, sig *types.Signature, args []Val, st *State, reach string) Val {
	ft := fr.ft
	g := ft.g
	if c.External {
		ft.assumed[key] = true
	} else {
		ft.modular[key] = true
	}
	env := &Env{ft: ft, vars: map[string]SV{}, st: st, old: st, file: c.File, bound: map[string]bool{}}
	if callee != nil && callee.Pkg != nil {
		env.pkg = callee.Pkg.Pkg
	}
	if c.SpecDyn != nil {
		if fp := g.filePkg(c.File); fp != nil {
			env.pkg = fp
		}
	}
	// parameter names: receiver first
	var pnames []string
	var ptypes []types.Type
	if sig.Recv() != nil {
		n := sig.Recv().Name()
		if n == "" || n == "_" {
			n = "recv"
		}
		pnames = append(pnames, n)
		ptypes = append(ptypes, sig.Recv().Type())
	}
	for i := 0; i < sig.Params().Len(); i++ {
		n := sig.Params().At(i).Name()
		if n == "" || n == "_" {
			n = fmt.Sprintf("p%d", i)
		}
		pnames = append(pnames, n)
		ptypes = append(ptypes, sig.Params().At(i).Type())
	}
	if callee != nil && len(callee.Params) == len(args) {
		pnames = pnames[:0]
		ptypes = ptypes[:0]
		for _, p := range callee.Params {
			pnames = append(pnames, p.Name())
			ptypes = append(ptypes, p.Type())
		}
	}
	if len(pnames) != len(args) {
		// invoke on interface: receiver is args[0]
		if len(pnames)+1 == len(args) {
			pnames = append([]string{"recv"}, pnames...)
			ptypes = append([]types.Type{args[0].Ty}, ptypes...)
		} else {
			ft.unsupported("argument count mismatch calling %s", key)
			return fr.havocResult(sig.Results(), st)
		}
	}
	for i, a := range args {
		sv := SV{fr.asValue(a, st), goT(ptypes[i])}
		if a.Ty != nil && g.reg.SortOf(a.Ty) != g.reg.SortOf(ptypes[i]) {
			sv.Ty = goT(a.Ty)
		}
		env.vars[pnames[i]] = sv
		env.vars[fmt.Sprintf("$%d", i)] = sv
		if i < len(c.Params) {
			env.vars[c.Params[i]] = sv
		}
	}
	if len(args) > 0 {
		env.vars["recv"] = env.vars[pnames[0]]
	}
	// preconditions
	for i, cl := range c.Requires {
		var hints []string
		env.hints = &hints
		t, err := env.EvalBool(cl.E)
		if err != nil {
			ft.unsupported("requires of %s: %v", key, err)
			continue
		}
		label := fmt.Sprint(i + 1)
		if cl.Name != "" {
			label = cl.Name
		}
		ft.addObl(fr, "pre", fr.tag+shortKey(key)+"."+label, reach, t, cl.Src, nil, hints)
	}
	env.hints = nil
	// post state: havoc assigned state
	pre := st.clone()
	assigns := c.Assigns
	if !c.HasAssign {
		// no frame given: every ghost variable the postconditions talk about may have changed
		// (a contract that never mentions old(...) describes a read-only function)
		refs := map[string]bool{}
		mentionsOld := false
		for _, cl := range c.Ensures {
			if strings.Contains(cl.Src, "old(") {
				mentionsOld = true
			}
		}
		for _, cl := range c.Ensures {
			if mentionsOld {
				g.db.GhostRefs(cl.Src, map[string]bool{}, refs)
			}
		}
		for _, k := range sortedStrs(refs) {
			assigns = append(assigns, k)
		}
	}
	for _, a := range assigns {
		if strings.HasPrefix(a, "*") {
			// cell pointed to by a parameter
			pn := strings.TrimSpace(a[1:])
			pv, ok := env.vars[pn]
			if !ok {
				ft.unsupported("assigns %s: unknown parameter in %s", a, key)
				continue
			}
			pt, ok := pv.Ty.Go.Underlying().(*types.Pointer)
			if !ok {
				// interface parameter holding a pointer: havoc the cell of the dynamic type
				if g.reg.SortOf(pv.Ty.Go) == "Iface" {
					var dyn types.Type
					for i, n := range pnames {
						if n == pn && args[i].DynT != nil {
							dyn = args[i].DynT
						}
					}
					if dp, ok := dyn.(*types.Pointer); ok {
						es := g.reg.SortOf(dp.Elem())
						hs := "(Array Int " + es + ")"
						h := ft.stateGet(st, "H|"+es, hs)
						nh := ft.fresh("h", hs)
						ft.fact("(= " + nh + " (store " + h + " (ipl " + pv.T + ") " + ft.fresh("cell", es) + "))")
						ft.stateSet(fr, st, "H|"+es, hs, nh)
						continue
					}
				}
				ft.unsupported("assigns %s in %s: not a pointer with known target", a, key)
				continue
			}
			es := g.reg.SortOf(pt.Elem())
			hs := "(Array Int " + es + ")"
			h := ft.stateGet(st, "H|"+es, hs)
			nh := ft.fresh("h", hs)
			ft.fact("(= " + nh + " (store " + h + " " + pv.T + " " + ft.fresh("cell", es) + "))")
			ft.stateSet(fr, st, "H|"+es, hs, nh)
			continue
		}
		name := ft.assignVarIn(a, c.File, env.pkg)
		s := ft.ssorts[name]
		if s == "" {
			// force creation
			if strings.HasPrefix(name, "ghost|") {
				gv := g.db.Ghosts[name[6:]]
				s = g.reg.STSort(g.resolveType(gv.Type, gv.File, g.filePkg(gv.File)))
				ft.stateGet(st, name, s)
			} else if strings.HasPrefix(name, "H|") {
				s = "(Array Int " + name[2:] + ")"
				ft.stateGet(st, name, s)
			} else {
				ft.unsupported("assigns %s in %s: unknown state", a, key)
				continue
			}
		}
		ft.stateSet(fr, st, name, s, ft.fresh("as_"+mangle(name), s))
	}
	// results
	var result Val
	rs := sig.Results()
	var rvals []Val
	for i := 0; i < rs.Len(); i++ {
		t := rs.At(i).Type()
		cst := ft.fresh("r_"+mangle(shortKey(key)), g.reg.SortOf(t))
		ft.typeInvLoop(cst, t)
		if _, ok := t.Underlying().(*types.Pointer); ok {
			ft.fact("(>= " + cst + " 0)")
		}
		rvals = append(rvals, Val{T: cst, Ty: t})
		sv := SV{cst, goT(t)}
		env.vars[fmt.Sprintf("r%d", i)] = sv
		if n := rs.At(i).Name(); n != "" && n != "_" {
			env.vars[n] = sv
		}
		if i < len(c.Results) {
			env.vars[c.Results[i]] = sv
		}
		if i == 0 {
			env.vars["result"] = sv
		}
		if types.Identical(t, types.Universe.Lookup("error").Type()) {
			if _, ok := env.vars["err"]; !ok {
				env.vars["err"] = sv
			}
		}
	}
	switch len(rvals) {
	case 0:
		result = Val{T: "0", Ty: rs}
	case 1:
		result = rvals[0]
	default:
		result = Val{Ty: rs, Tuple: rvals}
	}
	// the callee may allocate: the watermark only grows
	{
		ox := ft.stateGet(st, "$next", "Int")
		nx := ft.fresh("next", "Int")
		ft.fact("(>= " + nx + " " + ox + ")")
		st.vars["$next"] = nx
	}
	env.st = st
	env.old = pre
	for _, cl := range c.Ensures {
		t, err := env.EvalBool(cl.E)
		if err != nil {
			// a postcondition of the callee that cannot be interpreted at this call (e.g. it names a result the callee no
			// longer has) is not assumed: the caller is checked against what is left of the contract, which is sound
			// (fewer assumptions) and keeps the caller's own obligations decided instead of silently undecided
			ft.dropped = append(ft.dropped, fmt.Sprintf("ensures of %s not assumed at a call: %v", key, err))
			continue
		}
		ft.fact("(=> " + reach + " " + t + ")")
	}
	if c.Fresh && len(rvals) > 0 {
		// result is a freshly allocated reference
		nx := ft.stateGet(st, "$next", "Int")
		ft.fact("(=> " + reach + " (= " + rvals[0].T + " " + nx + "))")
		nn := ft.fresh("next", "Int")
		ft.fact("(= " + nn + " (+ " + nx + " 1))")
		st.vars["$next"] = nn
	}
	return result
}

func (ft *FT) assignVarIn(a, file string, pkg *types.Package) string {
	a = strings.TrimSpace(a)
	if _, ok := ft.g.db.Ghosts[a]; ok {
		return "ghost|" + a
	}
	if strings.HasPrefix(a, "H(") && strings.HasSuffix(a, ")") {
		ty := ft.g.resolveType(a[2:len(a)-1], file, pkg)
		return "H|" + ft.g.reg.STSort(ty)
	}
	return a
}

func shortKey(k string) string {
	k = strings.ReplaceAll(k, repoPrefix+"/", "")
	k = strings.ReplaceAll(k, "github.com/cosmos/cosmos-sdk/", "sdk/")
	return k
}

// inline splices the callee body.
func (fr *frame) inline(callee *ssa.Function, c *Contract, args []Val, com *ssa.CallCommon, st *State, reach string) Val {
	ft := fr.ft
	if callee.Synthetic == "" {
		ft.inlined[callee.String()] = true
	}
	nf := &frame{ft: ft, fn: callee, c: c, vals: map[ssa.Value]Val{}, depth: fr.depth + 1}
	nf.tag = fr.tag
	if callee.Synthetic == "" {
		nf.tag = fr.tag + shortName(callee) + ":"
	}
	if len(args) != len(callee.Params) {
		ft.unsupported("inline %s: %d args for %d params", callee, len(args), len(callee.Params))
		return fr.havocResult(callee.Signature.Results(), st)
	}
	for i, p := range callee.Params {
		a := args[i]
		if a.Buf != nil {
			a = Val{T: fr.asValue(a, st), Ty: p.Type()}
		}
		a.Ty = p.Type()
		nf.vals[p] = a
	}
	// closure bindings
	if len(callee.FreeVars) > 0 {
		clo := fr.cloOverride
		if clo == nil && com != nil {
			if v, ok := fr.vals[com.Value]; ok {
				clo = v.Clo
			}
		}
		if clo == nil || len(clo.Bind) != len(callee.FreeVars) {
			ft.unsupported("inline closure %s without bindings", callee)
			return fr.havocResult(callee.Signature.Results(), st)
		}
		for i, fv := range callee.FreeVars {
			nf.vals[fv] = clo.Bind[i]
		}
	}
	if c != nil {
		env := nf.specEnv(st, st, nil)
		for i, cl := range c.Requires {
			t, err := env.EvalBool(cl.E)
			if err != nil {
				ft.unsupported("requires of %s: %v", callee, err)
				continue
			}
			ft.addObl(fr, "pre", fr.tag+shortName(callee)+"."+fmt.Sprint(i+1), reach, t, cl.Src, nil, nil)
		}
	}
	saveBlk, saveIdx := fr.curBlk, fr.curIdx
	// writes inside the inlined body count as writes of the caller's current block (for loop havoc)
	ft.runFrame(nf, st, reach)
	fr.curBlk, fr.curIdx = saveBlk, saveIdx
	for b, m := range ft.written {
		if b.Parent() == callee && saveBlk != nil {
			for k := range m {
				ft.noteWrite(saveBlk, k)
			}
		}
	}
	for b, m := range ft.oldWrite {
		if b.Parent() == callee && saveBlk != nil {
			for k := range m {
				ft.noteHeapWrite(saveBlk, k, nil)
			}
		}
	}
	for b, m := range ft.freshIn {
		if b.Parent() == callee && saveBlk != nil {
			for k, abs := range m {
				for _, ab := range abs {
					if ab.Parent() == callee {
						ab = saveBlk // a cell allocated by the inlined callee is allocated "at the call"
					}
					ft.noteHeapWrite(saveBlk, k, ab)
				}
			}
		}
	}
	if len(nf.rets) == 0 {
		// callee never returns (always panics)
		ft.fact("(not " + reach + ")")
		return fr.havocResult(callee.Signature.Results(), st)
	}
	exit, results, _ := ft.mergeReturns(nf)
	st.vars = exit.vars
	switch len(results) {
	case 0:
		return Val{T: "0", Ty: callee.Signature.Results()}
	case 1:
		return results[0]
	}
	return Val{Ty: callee.Signature.Results(), Tuple: results}
}

func shortName(fn *ssa.Function) string {
	n := fn.Name()
	if recv := fn.Signature.Recv(); recv != nil {
		t := recv.Type()
		if p, ok := t.(*types.Pointer); ok {
			t = p.Elem()
		}
		if nt, ok := t.(*types.Named); ok {
			return nt.Obj().Name() + "." + n
		}
	}
	return n
}

// ---------------------------------------------------------------------------
// builtins

func (fr *frame) builtin(b *ssa.Builtin, com *ssa.CallCommon, args []Val, st *State, reach string, res ssa.Value) Val {
	ft := fr.ft
	g := ft.g
	switch b.Name() {
	case "len", "cap":
		a := args[0]
		if a.Buf != nil {
			return Val{T: fr.bufLen(a.Buf, st), Ty: types.Typ[types.Int]}
		}
		s := g.reg.SortOf(com.Args[0].Type())
		if si, ok := g.reg.seqs[s]; ok {
			if b.Name() == "cap" {
				c := ft.fresh("cap", "Int")
				ft.fact("(>= " + c + " (" + si.Len + " " + fr.asValue(a, st) + "))")
				return Val{T: c, Ty: types.Typ[types.Int]}
			}
			return Val{T: "(" + si.Len + " " + fr.asValue(a, st) + ")", Ty: types.Typ[types.Int]}
		}
		if mt, ok := com.Args[0].Type().Underlying().(*types.Map); ok {
			_, _, cell := fr.mapSorts(mt)
			m := fr.asValue(a, st)
			h := ft.stateGet(st, "M|"+cell, "(Array Int "+cell+")")
			return Val{T: fmt.Sprintf("(ite (= %s 0) 0 (%s.card (select %s %s)))", m, cell, h, m), Ty: types.Typ[types.Int]}
		}
		if at, ok := com.Args[0].Type().Underlying().(*types.Array); ok {
			return Val{T: fmt.Sprint(at.Len()), Ty: types.Typ[types.Int]}
		}
		if pt, ok := com.Args[0].Type().Underlying().(*types.Pointer); ok {
			if at, ok := pt.Elem().Underlying().(*types.Array); ok {
				return Val{T: fmt.Sprint(at.Len()), Ty: types.Typ[types.Int]}
			}
		}
		ft.unsupported("len of %s", com.Args[0].Type())
	case "append":
		s := g.reg.SortOf(com.Args[0].Type())
		si := g.reg.seqs[s]
		if si == nil {
			ft.unsupported("append on %s", com.Args[0].Type())
			break
		}
		a := fr.asValue(args[0], st)
		bb := fr.asValue(args[1], st)
		c := ft.fresh("app", s)
		ft.fact("(= " + c + " (" + si.Cat + " " + a + " " + bb + "))")
		// the prefix is kept - a consequence of the cat axioms, stated once more with the trigger on the OLD sequence, so
		// that a witness known for a[j] (e.g. the Skolem index of an existential invariant) carries over to the result
		ft.fact(fmt.Sprintf("(forall ((j Int)) (! (=> (and (<= 0 j) (< j (%s %s))) (= (%s %s j) (%s %s j))) :pattern ((%s %s j))))", si.Len, a, si.At, c, si.At, a, si.At, a))
		// append returns nil only if both are empty and the first is nil
		ft.fact("(=> (> (" + si.Len + " " + c + ") 0) (not (" + si.IsNil + " " + c + ")))")
		ft.fact("(=> (not (" + si.IsNil + " " + a + ")) (not (" + si.IsNil + " " + c + ")))")
		return Val{T: c, Ty: com.Args[0].Type()}
	case "copy":
		dst := args[0]
		if dst.Buf == nil {
			ft.unsupported("copy into a sequence that is not a local buffer in %s", fr.fn)
			return Val{T: "0", Ty: types.Typ[types.Int]}
		}
		src := fr.asValue(args[1], st)
		if g.reg.SortOf(com.Args[1].Type()) == "Str" && dst.Buf.Sort == "Bytes" {
			src = "(tobytes " + src + ")" // copy(dst []byte, src string)
		}
		bsort := dst.Buf.Sort
		si := g.reg.seqs[bsort]
		dlen := fr.bufLen(dst.Buf, st)
		n := ft.fresh("ncopy", "Int")
		slen := "(" + si.Len + " " + src + ")"
		ft.fact(fmt.Sprintf("(= %s (ite (<= %s %s) %s %s))", n, dlen, slen, dlen, slen))
		hv, hs := "B|"+bsort, "(Array Int "+bsort+")"
		h := ft.stateGet(st, hv, hs)
		cur := "(select " + h + " " + dst.Buf.Ref + ")"
		lo := "0"
		if dst.Buf.Lo != "" {
			lo = dst.Buf.Lo
		}
		nv := ft.fresh("cp", bsort)
		ft.fact(fmt.Sprintf("(= (%s %s) (%s %s))", si.Len, nv, si.Len, cur))
		ft.fact(fmt.Sprintf("(= (%s %s) (%s %s))", si.IsNil, nv, si.IsNil, cur))
		ft.fact(fmt.Sprintf("(forall ((j Int)) (! (= (%s %s j) (ite (and (<= %s j) (< j (+ %s %s))) (%s %s (- j %s)) (%s %s j))) :pattern ((%s %s j))))",
			si.At, nv, lo, lo, n, si.At, src, lo, si.At, cur, si.At, nv))
		nh := ft.fresh("B", hs)
		ft.fact("(= " + nh + " (store " + h + " " + dst.Buf.Ref + " " + nv + "))")
		ft.stateSet(fr, st, hv, hs, nh)
		ft.mutSite = append(ft.mutSite, site{dst.Buf.Root, fr.curBlk, fr.curIdx})
		return Val{T: n, Ty: types.Typ[types.Int]}
	case "delete":
		mt := com.Args[0].Type().Underlying().(*types.Map)
		_, _, cell := fr.mapSorts(mt)
		m := fr.asValue(args[0], st)
		k := fr.asValue(args[1], st)
		hs := "(Array Int " + cell + ")"
		h := ft.stateGet(st, "M|"+cell, hs)
		cur := "(select " + h + " " + m + ")"
		nc := fmt.Sprintf("(mk_%s (store (%s.dom %s) %s false) (%s.val %s) (ite (select (%s.dom %s) %s) (- (%s.card %s) 1) (%s.card %s)))", cell, cell, cur, k, cell, cur, cell, cur, k, cell, cur, cell, cur)
		nh := ft.fresh("m", hs)
		ft.fact("(= " + nh + " (ite (= " + m + " 0) " + h + " (store " + h + " " + m + " " + nc + ")))")
		ft.stateSet(fr, st, "M|"+cell, hs, nh)
		return Val{T: "0"}
	case "ssa:wrapnilchk":
		v := fr.asValue(args[0], st)
		ft.addObl(fr, "nil", fr.tag+"wrapnilchk", reach, "(not (= "+v+" 0))", "nil receiver in wrapper", nil, nil)
		return Val{T: v, Ty: com.Args[0].Type()}
	case "print", "println":
		return Val{T: "0"}
	case "min", "max":
		a, bb := fr.asValue(args[0], st), fr.asValue(args[1], st)
		op := "<="
		if b.Name() == "max" {
			op = ">="
		}
		return Val{T: "(ite (" + op + " " + a + " " + bb + ") " + a + " " + bb + ")", Ty: com.Args[0].Type()}
	}
	ft.unsupported("builtin %s in %s", b.Name(), fr.fn)
	if res != nil {
		return Val{T: ft.fresh("undef", g.reg.SortOf(res.Type())), Ty: res.Type()}
	}
	return Val{T: "0"}
}

// ---------------------------------------------------------------------------
// intrinsics: polymorphic externals that cannot be written in the spec language

type intrinsic func(fr *frame, com *ssa.CallCommon, args []Val, st *State, reach string) Val

var intrinsics = map[string]intrinsic{}

var intrinsicByPattern = func(key string) intrinsic { return nil }

func isGeneratedPB(g *Gen, fn *ssa.Function) bool {
	if !isRepoFunc(fn) {
		return false
	}
	pos := fn.Pos()
	if !pos.IsValid() && fn.Syntax() != nil {
		pos = fn.Syntax().Pos()
	}
	if !pos.IsValid() {
		return false
	}
	f := g.prog.Fset.Position(pos).Filename
	return strings.HasSuffix(f, ".pb.go") || strings.HasSuffix(f, ".pb.gw.go")
}

// verifyingSpec: while a specialised contract is being verified, calls to the same function are not cut by it.
func (ft *FT) verifyingSpec(c *Contract) bool { return ft.c == c }

// pureExternals: calls without a contract that are known to neither touch chain state nor to be a source of
// nondeterminism (formatting, error text, logging, generated marshalling helpers). Everything else without a contract
// yields an "extcall" obligation that only unreachability can discharge; it is counted for the frame properties (C09, C15).
var pureExternalPrefixes = []string{"fmt.Sprintf", "fmt.Sprint", "(error).Error", "(github.com/cometbft/cometbft/libs/log.Logger).", "strings.", "strconv.", "bytes.",
	"(*github.com/cosmos/cosmos-sdk/types.EventManager).", "github.com/cosmos/cosmos-sdk/types.NewEvent", "github.com/cosmos/cosmos-sdk/types.NewAttribute", "errors.", "cosmossdk.io/errors.",
	"google.golang.org/grpc/status.", "encoding/base64.", "encoding/hex."}

var nondetSources = []string{"time.Now", "time.Since", "math/rand.", "crypto/rand.", "os.", "runtime.", "(*math/rand.Rand)."}

func (fr *frame) extCall(key string, reach string) {
	ft := fr.ft
	for _, n := range nondetSources {
		if strings.HasPrefix(key, n) {
			ft.addObl(fr, "nondet", fr.tag+shortKey(key), reach, "false", "call to a source of nondeterminism: "+key, []string{"C09"}, nil)
			return
		}
	}
	pure := strings.Contains(key, "generated *.pb.go")
	for _, p := range pureExternalPrefixes {
		if strings.HasPrefix(key, p) {
			pure = true
		}
	}
	if isGeneratedKey(key) {
		pure = true
	}
	goal := "false"
	if pure {
		goal = "true"
	}
	ft.addObl(fr, "extcall", fr.tag+shortKey(key), reach, goal, "call to a function without contract (must be known effect-free and total): "+key, []string{"C09", "C15", "C07"}, nil)
}

func isGeneratedKey(key string) bool {
	return strings.Contains(key, ".pb.go") || strings.HasSuffix(key, ").String") || strings.HasSuffix(key, ").ProtoMessage") || strings.HasSuffix(key, ").Reset")
}

// funcAliases: package-level function variables of dependencies that are deprecated aliases of a function and are
// assigned nowhere (read from the SDK source: types/errors/errors.go `var Wrap = errorsmod.Wrap`).
var funcAliases = map[string]string{
	"github.com/cosmos/cosmos-sdk/types/errors.Wrap":  "cosmossdk.io/errors.Wrap",
	"github.com/cosmos/cosmos-sdk/types/errors.Wrapf": "cosmossdk.io/errors.Wrapf",
}

// aliasedFunc resolves `load(global)` where the global is a known function alias, checking the alias against the
// initialiser in the dependency's source (so a different SDK version cannot silently change the meaning).
func (fr *frame) aliasedFunc(v ssa.Value) *ssa.Function {
	u, ok := v.(*ssa.UnOp)
	if !ok {
		return nil
	}
	gl, ok := u.X.(*ssa.Global)
	if !ok || gl.Pkg == nil {
		return nil
	}
	target, ok := funcAliases[gl.Pkg.Pkg.Path()+"."+gl.Name()]
	if !ok {
		return nil
	}
	g := fr.ft.g
	p := g.allPkgs[gl.Pkg.Pkg.Path()]
	if p == nil || p.TypesInfo == nil {
		return nil
	}
	for _, f := range p.Syntax {
		for _, d := range f.Decls {
			gd, ok := d.(*ast.GenDecl)
			if !ok {
				continue
			}
			for _, sp := range gd.Specs {
				vs, ok := sp.(*ast.ValueSpec)
				if !ok || len(vs.Values) != len(vs.Names) {
					continue
				}
				for i, id := range vs.Names {
					if id.Name != gl.Name() {
						continue
					}
					var obj types.Object
					switch e := ast.Unparen(vs.Values[i]).(type) {
					case *ast.Ident:
						obj = p.TypesInfo.Uses[e]
					case *ast.SelectorExpr:
						obj = p.TypesInfo.Uses[e.Sel]
					}
					fo, ok := obj.(*types.Func)
					if !ok || fo.Pkg() == nil || fo.Pkg().Path()+"."+fo.Name() != target {
						return nil
					}
					fr.ft.assumed["package-level function variable "+gl.Pkg.Pkg.Path()+"."+gl.Name()+" is an alias of "+target+" (its initialiser) and is assigned nowhere"] = true
					return g.prog.FuncValue(fo)
				}
			}
		}
	}
	return nil
}
