package main

// Initial values of package-level variables.
//
// A package-level variable of the repository that no function other than a package initialiser assigns (writtenGlobals)
// keeps the value of its initialiser for the whole run of the program. When that initialiser is a constant expression or
// a composite literal built from constants, other such variables and function names, its value is known from the source
// alone; the translator then states it as a fact about the variable. Anything else (function calls, address-of, maps,
// keyed slices) is left unknown - never guessed.

import (
	"fmt"
	"go/ast"
	"go/constant"
	"go/types"
	"strings"
)

// globalInit is called the first time a function under translation touches global `name` (state constant c).
func (ft *FT) globalInit(name, c, sort string) {
	g := ft.g
	if g.writtenGlobals()[name] {
		return
	}
	t, ok := g.globalInitTerm(strings.TrimPrefix(name, "G|"), map[string]bool{})
	if !ok {
		return
	}
	ft.fact("(= " + c + " " + t + ")")
	ft.assumed["package-level variables that no function assigns hold the value of their initialiser (composite literals of constants)"] = true
}

// globalInitTerm evaluates the initialiser of the package-level variable "pkgpath.Name".
func (g *Gen) globalInitTerm(full string, busy map[string]bool) (string, bool) {
	if busy[full] {
		return "", false
	}
	busy[full] = true
	defer delete(busy, full)
	i := strings.LastIndex(full, ".")
	if i < 0 {
		return "", false
	}
	pkgPath, vname := full[:i], full[i+1:]
	if !(strings.HasPrefix(pkgPath, repoPrefix) || verifiedDeps[pkgPath]) || g.writtenGlobals()["G|"+full] {
		return "", false
	}
	p := g.allPkgs[pkgPath]
	if p == nil || p.TypesInfo == nil {
		return "", false
	}
	for _, f := range p.Syntax {
		for _, d := range f.Decls {
			gd, ok := d.(*ast.GenDecl)
			if !ok {
				continue
			}
			for _, sp := range gd.Specs {
				vs, ok := sp.(*ast.ValueSpec)
				if !ok {
					continue
				}
				for k, id := range vs.Names {
					if id.Name != vname || len(vs.Values) != len(vs.Names) {
						continue
					}
					obj, _ := p.TypesInfo.Defs[id].(*types.Var)
					if obj == nil {
						return "", false
					}
					return g.initExpr(p.TypesInfo, vs.Values[k], obj.Type(), busy)
				}
			}
		}
	}
	return "", false
}

func (g *Gen) initExpr(info *types.Info, e ast.Expr, want types.Type, busy map[string]bool) (string, bool) {
	e = ast.Unparen(e)
	if tv, ok := info.Types[e]; ok && tv.Value != nil {
		if g.reg.SortOf(want) == "Iface" {
			return "", false
		}
		return g.constTerm(tv.Value, want), true
	}
	switch x := e.(type) {
	case *ast.CompositeLit:
		tv, ok := info.Types[x]
		if !ok {
			return "", false
		}
		return g.initComposite(info, x, tv.Type, busy)
	case *ast.Ident, *ast.SelectorExpr:
		var obj types.Object
		if id, ok := x.(*ast.Ident); ok {
			obj = info.Uses[id]
		} else {
			obj = info.Uses[x.(*ast.SelectorExpr).Sel]
		}
		switch o := obj.(type) {
		case *types.Var:
			if o.Pkg() == nil || o.Parent() != o.Pkg().Scope() {
				return "", false
			}
			if !types.Identical(o.Type(), want) {
				return "", false
			}
			return g.globalInitTerm(o.Pkg().Path()+"."+o.Name(), busy)
		case *types.Func:
			// a function value: opaque and non-nil; the translator's model of function values carries no more
			if _, ok := want.Underlying().(*types.Signature); ok {
				return "1", true
			}
		case *types.Nil:
			return g.zero(want), true
		}
	}
	return "", false
}

func (g *Gen) initComposite(info *types.Info, x *ast.CompositeLit, t types.Type, busy map[string]bool) (string, bool) {
	sort := g.reg.SortOf(t)
	switch u := t.Underlying().(type) {
	case *types.Struct:
		si := g.reg.structs[sort]
		if si == nil {
			return "", false
		}
		vals := make([]string, len(si.FNames))
		for i, ft := range si.FTypes {
			vals[i] = g.zero(ft)
		}
		for i, el := range x.Elts {
			idx := i
			val := el
			if kv, ok := el.(*ast.KeyValueExpr); ok {
				id, ok := kv.Key.(*ast.Ident)
				if !ok {
					return "", false
				}
				idx = -1
				for j, n := range si.FNames {
					if n == id.Name {
						idx = j
					}
				}
				val = kv.Value
			}
			if idx < 0 || idx >= len(vals) {
				return "", false
			}
			if cl, ok := val.(*ast.CompositeLit); ok && cl.Type == nil {
				v, ok := g.initComposite(info, cl, si.FTypes[idx], busy)
				if !ok {
					return "", false
				}
				vals[idx] = v
				continue
			}
			v, ok := g.initExpr(info, val, si.FTypes[idx], busy)
			if !ok {
				return "", false
			}
			vals[idx] = v
		}
		if len(vals) == 0 {
			return si.Ctor, true
		}
		return "(" + si.Ctor + " " + strings.Join(vals, " ") + ")", true
	case *types.Slice:
		if sort == "Bytes" {
			// []byte{c0, c1, ...} of constants: the byte string with exactly these bytes (non-nil)
			var bs []byte
			for _, el := range x.Elts {
				if _, ok := el.(*ast.KeyValueExpr); ok {
					return "", false
				}
				tv, ok := info.Types[el]
				if !ok || tv.Value == nil || tv.Value.Kind() != constant.Int {
					return "", false
				}
				v, exact := constant.Int64Val(tv.Value)
				if !exact || v < 0 || v > 255 {
					return "", false
				}
				bs = append(bs, byte(v))
			}
			return "(tobytes " + g.strLit(string(bs)) + ")", true
		}
		if _, ok := g.reg.seqs[sort]; !ok {
			return "", false
		}
		var elems []string
		for _, el := range x.Elts {
			if _, ok := el.(*ast.KeyValueExpr); ok {
				return "", false
			}
			if cl, ok := el.(*ast.CompositeLit); ok && cl.Type == nil {
				v, ok := g.initComposite(info, cl, u.Elem(), busy)
				if !ok {
					return "", false
				}
				elems = append(elems, v)
				continue
			}
			v, ok := g.initExpr(info, el, u.Elem(), busy)
			if !ok {
				return "", false
			}
			elems = append(elems, v)
		}
		return g.seqLit(sort, elems), true
	}
	_ = fmt.Sprint
	return "", false
}
