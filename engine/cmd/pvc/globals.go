package main

// Initial values of package-level variables.
//
// A package-level variable of the repository that no function other than a package initialiser assigns (writtenGlobals)
// keeps the value of its initialiser for the whole run of the program. When that initialiser is a constant expression or
// a composite literal built from constants, other such variables and function names, its value is known from the source
// alone; the translator then states it as a fact about the variable. Anything else (function calls, address-of, maps,
// keyed slices) is left unknown - never guessed.

import (
	"fmt"
	"go/ast"
	"go/constant"
	"go/types"
	"strings"
)

// globalInit is called the first time a function under translation touches global `name` (state constant c).
func (ft *FT) globalInit(name, c, sort string) {
	g := ft.g
	if g.writtenGlobals()[name] {
		return
	}
	t, ok := g.globalInitTerm(strings.TrimPrefix(name, "G|"), map[string]bool{})
	if !ok {
		// var re = regexp.MustCompile(<constant pattern>): the variable is a non-nil compiled expression of exactly
		// that pattern (the contract of regexp.MustCompile in contracts/regexp.spec, applied to the initialiser; a pattern
		// that does not compile panics during package initialisation, before any function under contract runs)
		if pat, ok := g.globalInitRegexp(strings.TrimPrefix(name, "G|")); ok && sort == "Int" {
			if sf, ok := g.db.Funcs["rePat"]; ok {
				g.declareSpecFunc(sf)
				ft.fact("(and (not (= " + c + " 0)) (= (sf_rePat " + c + ") " + pat + "))")
				ft.assumed["package-level *regexp.Regexp variables that no function assigns are the compiled form of the constant pattern in their initialiser (regexp.MustCompile contract, E-std)"] = true
			}
		}
		return
	}
	ft.fact("(= " + c + " " + t + ")")
	ft.assumed["package-level variables that no function assigns hold the value of their initialiser (composite literals of constants)"] = true
}

// globalInitTerm evaluates the initialiser of the package-level variable "pkgpath.Name".
func (g *Gen) globalInitTerm(full string, busy map[string]bool) (string, bool) {
	if busy[full] {
		return "", false
	}
	busy[full] = true
	defer delete(busy, full)
	i := strings.LastIndex(full, ".")
	if i < 0 {
		return "", false
	}
	pkgPath, vname := full[:i], full[i+1:]
	if !(strings.HasPrefix(pkgPath, repoPrefix) || verifiedDeps[pkgPath]) || g.writtenGlobals()["G|"+full] {
		return "", false
	}
	p := g.allPkgs[pkgPath]
	if p == nil || p.TypesInfo == nil {
		return "", false
	}
	for _, f := range p.Syntax {
		for _, d := range f.Decls {
			gd, ok := d.(*ast.GenDecl)
			if !ok {
				continue
			}
			for _, sp := range gd.Specs {
				vs, ok := sp.(*ast.ValueSpec)
				if !ok {
					continue
				}
				for k, id := range vs.Names {
					if id.Name != vname || len(vs.Values) != len(vs.Names) {
						continue
					}
					obj, _ := p.TypesInfo.Defs[id].(*types.Var)
					if obj == nil {
						return "", false
					}
					return g.initExpr(p.TypesInfo, vs.Values[k], obj.Type(), busy)
				}
			}
		}
	}
	return "", false
}

// globalInitRegexp: the constant pattern p when the package-level variable "pkgpath.Name" of the repository is declared
// as `var Name = regexp.MustCompile(p)` and assigned nowhere else.
func (g *Gen) globalInitRegexp(full string) (string, bool) {
	i := strings.LastIndex(full, ".")
	if i < 0 {
		return "", false
	}
	pkgPath, vname := full[:i], full[i+1:]
	if !strings.HasPrefix(pkgPath, repoPrefix) || g.writtenGlobals()["G|"+full] {
		return "", false
	}
	p := g.allPkgs[pkgPath]
	if p == nil || p.TypesInfo == nil {
		return "", false
	}
	for _, f := range p.Syntax {
		for _, d := range f.Decls {
			gd, ok := d.(*ast.GenDecl)
			if !ok {
				continue
			}
			for _, sp := range gd.Specs {
				vs, ok := sp.(*ast.ValueSpec)
				if !ok || len(vs.Values) != len(vs.Names) {
					continue
				}
				for k, id := range vs.Names {
					if id.Name != vname {
						continue
					}
					call, ok := ast.Unparen(vs.Values[k]).(*ast.CallExpr)
					if !ok || len(call.Args) != 1 {
						return "", false
					}
					sel, ok := call.Fun.(*ast.SelectorExpr)
					if !ok {
						return "", false
					}
					fn, _ := p.TypesInfo.Uses[sel.Sel].(*types.Func)
					if fn == nil || fn.Pkg() == nil || fn.Pkg().Path() != "regexp" || fn.Name() != "MustCompile" {
						return "", false
					}
					return g.foldStr(p.TypesInfo, call.Args[0], 0)
				}
			}
		}
	}
	return "", false
}

// foldStr evaluates a string expression of a package initialiser to an SMT term when it is built from constants,
// `+`, fmt.Sprintf with a constant format of literal text and %s / %v verbs (the term has the shape the fmt.Sprintf
// contract in contracts/std.spec gives: pieces concatenated left to right), and calls of parameterless repository
// functions whose body is a single return of such an expression. Anything else: not evaluated.
func (g *Gen) foldStr(info *types.Info, e ast.Expr, depth int) (string, bool) {
	if depth > 6 {
		return "", false
	}
	e = ast.Unparen(e)
	if tv, ok := info.Types[e]; ok && tv.Value != nil {
		if tv.Value.Kind() != constant.String {
			return "", false
		}
		return g.strLit(constant.StringVal(tv.Value)), true
	}
	switch x := e.(type) {
	case *ast.BinaryExpr:
		if x.Op.String() != "+" {
			return "", false
		}
		a, ok1 := g.foldStr(info, x.X, depth+1)
		b, ok2 := g.foldStr(info, x.Y, depth+1)
		if !ok1 || !ok2 {
			return "", false
		}
		return "(cat_Str " + a + " " + b + ")", true
	case *ast.CallExpr:
		var fn *types.Func
		switch f := x.Fun.(type) {
		case *ast.Ident:
			fn, _ = info.Uses[f].(*types.Func)
		case *ast.SelectorExpr:
			fn, _ = info.Uses[f.Sel].(*types.Func)
		}
		if fn == nil || fn.Pkg() == nil {
			return "", false
		}
		if fn.Pkg().Path() == "fmt" && fn.Name() == "Sprintf" && len(x.Args) >= 1 {
			tv, ok := info.Types[x.Args[0]]
			if !ok || tv.Value == nil || tv.Value.Kind() != constant.String {
				return "", false
			}
			format := constant.StringVal(tv.Value)
			var pieces []string
			rest, argi := format, 1
			for {
				i := strings.Index(rest, "%")
				if i < 0 {
					break
				}
				if i+1 >= len(rest) || (rest[i+1] != 's' && rest[i+1] != 'v') || argi >= len(x.Args) {
					return "", false
				}
				at, ok := info.Types[x.Args[argi]]
				if !ok || !types.Identical(at.Type.Underlying(), types.Typ[types.String]) {
					return "", false
				}
				a, ok := g.foldStr(info, x.Args[argi], depth+1)
				if !ok {
					return "", false
				}
				if i > 0 {
					pieces = append(pieces, g.strLit(rest[:i]))
				}
				pieces = append(pieces, a)
				rest = rest[i+2:]
				argi++
			}
			if argi != len(x.Args) {
				return "", false
			}
			if rest != "" {
				pieces = append(pieces, g.strLit(rest))
			}
			if len(pieces) == 0 {
				return "emptystr", true
			}
			t := pieces[0]
			for _, q := range pieces[1:] {
				t = "(cat_Str " + t + " " + q + ")"
			}
			return t, true
		}
		if len(x.Args) == 0 && strings.HasPrefix(fn.Pkg().Path(), repoPrefix) && fn.Type().(*types.Signature).Recv() == nil {
			p := g.allPkgs[fn.Pkg().Path()]
			if p == nil || p.TypesInfo == nil {
				return "", false
			}
			for _, f := range p.Syntax {
				for _, d := range f.Decls {
					fd, ok := d.(*ast.FuncDecl)
					if !ok || fd.Recv != nil || fd.Body == nil || p.TypesInfo.Defs[fd.Name] != fn {
						continue
					}
					if len(fd.Body.List) != 1 {
						return "", false
					}
					rs, ok := fd.Body.List[0].(*ast.ReturnStmt)
					if !ok || len(rs.Results) != 1 {
						return "", false
					}
					return g.foldStr(p.TypesInfo, rs.Results[0], depth+1)
				}
			}
		}
	}
	return "", false
}

func (g *Gen) initExpr(info *types.Info, e ast.Expr, want types.Type, busy map[string]bool) (string, bool) {
	e = ast.Unparen(e)
	if tv, ok := info.Types[e]; ok && tv.Value != nil {
		if g.reg.SortOf(want) == "Iface" {
			return "", false
		}
		return g.constTerm(tv.Value, want), true
	}
	switch x := e.(type) {
	case *ast.CompositeLit:
		tv, ok := info.Types[x]
		if !ok {
			return "", false
		}
		return g.initComposite(info, x, tv.Type, busy)
	case *ast.Ident, *ast.SelectorExpr:
		var obj types.Object
		if id, ok := x.(*ast.Ident); ok {
			obj = info.Uses[id]
		} else {
			obj = info.Uses[x.(*ast.SelectorExpr).Sel]
		}
		switch o := obj.(type) {
		case *types.Var:
			if o.Pkg() == nil || o.Parent() != o.Pkg().Scope() {
				return "", false
			}
			if !types.Identical(o.Type(), want) {
				return "", false
			}
			return g.globalInitTerm(o.Pkg().Path()+"."+o.Name(), busy)
		case *types.Func:
			// a function value: opaque and non-nil; the translator's model of function values carries no more
			if _, ok := want.Underlying().(*types.Signature); ok {
				return "1", true
			}
		case *types.Nil:
			return g.zero(want), true
		}
	}
	return "", false
}

func (g *Gen) initComposite(info *types.Info, x *ast.CompositeLit, t types.Type, busy map[string]bool) (string, bool) {
	sort := g.reg.SortOf(t)
	switch u := t.Underlying().(type) {
	case *types.Struct:
		si := g.reg.structs[sort]
		if si == nil {
			return "", false
		}
		vals := make([]string, len(si.FNames))
		for i, ft := range si.FTypes {
			vals[i] = g.zero(ft)
		}
		for i, el := range x.Elts {
			idx := i
			val := el
			if kv, ok := el.(*ast.KeyValueExpr); ok {
				id, ok := kv.Key.(*ast.Ident)
				if !ok {
					return "", false
				}
				idx = -1
				for j, n := range si.FNames {
					if n == id.Name {
						idx = j
					}
				}
				val = kv.Value
			}
			if idx < 0 || idx >= len(vals) {
				return "", false
			}
			if cl, ok := val.(*ast.CompositeLit); ok && cl.Type == nil {
				v, ok := g.initComposite(info, cl, si.FTypes[idx], busy)
				if !ok {
					return "", false
				}
				vals[idx] = v
				continue
			}
			v, ok := g.initExpr(info, val, si.FTypes[idx], busy)
			if !ok {
				return "", false
			}
			vals[idx] = v
		}
		if len(vals) == 0 {
			return si.Ctor, true
		}
		return "(" + si.Ctor + " " + strings.Join(vals, " ") + ")", true
	case *types.Slice:
		if sort == "Bytes" {
			// []byte{c0, c1, ...} of constants: the byte string with exactly these bytes (non-nil)
			var bs []byte
			for _, el := range x.Elts {
				if _, ok := el.(*ast.KeyValueExpr); ok {
					return "", false
				}
				tv, ok := info.Types[el]
				if !ok || tv.Value == nil || tv.Value.Kind() != constant.Int {
					return "", false
				}
				v, exact := constant.Int64Val(tv.Value)
				if !exact || v < 0 || v > 255 {
					return "", false
				}
				bs = append(bs, byte(v))
			}
			return "(tobytes " + g.strLit(string(bs)) + ")", true
		}
		if _, ok := g.reg.seqs[sort]; !ok {
			return "", false
		}
		var elems []string
		for _, el := range x.Elts {
			if _, ok := el.(*ast.KeyValueExpr); ok {
				return "", false
			}
			if cl, ok := el.(*ast.CompositeLit); ok && cl.Type == nil {
				v, ok := g.initComposite(info, cl, u.Elem(), busy)
				if !ok {
					return "", false
				}
				elems = append(elems, v)
				continue
			}
			v, ok := g.initExpr(info, el, u.Elem(), busy)
			if !ok {
				return "", false
			}
			elems = append(elems, v)
		}
		return g.seqLit(sort, elems), true
	}
	_ = fmt.Sprint
	return "", false
}
