package main

// Typed evaluation of contract expressions into SMT terms.

import (
	"regexp"
	"strconv"
	"fmt"
	"math/big"
	"go/constant"
	"go/types"
	"strings"
)

// SV is a specification-level value: an SMT term with its type.
type SV struct {
	T  string
	Ty *SType
}

type Env struct {
	ft    *FT
	vars  map[string]SV
	st    *State
	old   *State
	file  string         // contract file (for import aliases)
	inTrig bool          // evaluating a trigger term
	pkg   *types.Package // package scope for unqualified Go names
	bound map[string]bool
	hints *[]string // ext hints collected (ground only)
	depth int
}

func (e *Env) clone() *Env {
	n := *e
	n.vars = map[string]SV{}
	for k, v := range e.vars {
		n.vars[k] = v
	}
	n.bound = map[string]bool{}
	for k, v := range e.bound {
		n.bound[k] = v
	}
	return &n
}

type evalErr struct{ msg string }

func efail(f string, a ...interface{}) { panic(evalErr{fmt.Sprintf(f, a...)}) }

func (e *Env) Eval(x Expr) (sv SV, err error) {
	defer func() {
		if r := recover(); r != nil {
			if ee, ok := r.(evalErr); ok {
				err = fmt.Errorf("%s", ee.msg)
				return
			}
			panic(r)
		}
	}()
	return e.ev(x), nil
}

func (e *Env) EvalBool(x Expr) (string, error) {
	sv, err := e.Eval(x)
	if err != nil {
		return "", err
	}
	if e.sort(sv.Ty) != "Bool" {
		return "", fmt.Errorf("expected boolean expression, got sort %s", e.sort(sv.Ty))
	}
	return sv.T, nil
}

func (e *Env) sort(t *SType) string { return e.ft.g.reg.STSort(t) }

// resolveType parses a type expression from a contract.
func (e *Env) resolveType(s string) *SType {
	return e.ft.g.resolveType(s, e.file, e.pkg)
}

func (g *Gen) resolveType(s, file string, pkg *types.Package) *SType {
	s = strings.TrimSpace(s)
	switch {
	case s == "":
		efail("empty type")
	case strings.HasPrefix(s, "gomap["):
		// gomap[K]V: a Go map value (reference to a map cell), as opposed to map[K]V, the ghost total map
		depth, j := 0, 5
		for ; j < len(s); j++ {
			if s[j] == '[' {
				depth++
			}
			if s[j] == ']' {
				depth--
				if depth == 0 {
					break
				}
			}
		}
		k, v := g.resolveType(s[6:j], file, pkg), g.resolveType(s[j+1:], file, pkg)
		if k.Go == nil || v.Go == nil {
			efail("gomap of ghost types")
		}
		return goT(types.NewMap(k.Go, v.Go))
	case strings.HasPrefix(s, "map["):
		depth, j := 0, 3
		for ; j < len(s); j++ {
			if s[j] == '[' {
				depth++
			}
			if s[j] == ']' {
				depth--
				if depth == 0 {
					break
				}
			}
		}
		return &SType{MapK: g.resolveType(s[4:j], file, pkg), MapV: g.resolveType(s[j+1:], file, pkg)}
	case strings.HasPrefix(s, "[]"):
		el := g.resolveType(s[2:], file, pkg)
		if el.Go == nil {
			efail("slice of ghost type %s", s)
		}
		return goT(types.NewSlice(el.Go))
	case strings.HasPrefix(s, "*"):
		el := g.resolveType(s[1:], file, pkg)
		return goT(types.NewPointer(el.Go))
	}
	switch s {
	case "int", "int64", "uint64", "uint8", "byte", "int32", "uint32", "uint", "uint16", "int16", "int8":
		return goT(types.Universe.Lookup(s).Type())
	case "bool":
		return tBool
	case "string":
		return tString
	case "error":
		return goT(types.Universe.Lookup("error").Type())
	case "any":
		return goT(types.NewInterfaceType(nil, nil))
	}
	if i := strings.LastIndex(s, "."); i >= 0 {
		alias, name := s[:i], s[i+1:]
		path := alias
		if p, ok := g.db.Imports[file][alias]; ok {
			path = p
		}
		tp := g.findPackage(path)
		if tp == nil {
			efail("unknown package %q in type %s", alias, s)
		}
		o := tp.Scope().Lookup(name)
		if o == nil {
			efail("unknown type %s", s)
		}
		return goT(o.Type())
	}
	if pkg != nil {
		if o := pkg.Scope().Lookup(s); o != nil {
			if _, ok := o.(*types.TypeName); ok {
				return goT(o.Type())
			}
		}
	}
	efail("unknown type %q", s)
	return nil
}

func isNilable(s string) bool { return s == "Int" || s == "Iface" || strings.HasPrefix(s, "Seq_") || s == "Str" }

func (e *Env) ev(x Expr) SV {
	g := e.ft.g
	switch n := x.(type) {
	case *EInt:
		bi, ok := new(big.Int).SetString(n.V, 0)
		if !ok {
			efail("bad integer %s", n.V)
		}
		return SV{bi.String(), tInt}
	case *EBool:
		if n.V {
			return SV{"true", tBool}
		}
		return SV{"false", tBool}
	case *EStr:
		return SV{g.strLit(n.V), tString}
	case *ENil:
		return SV{"nil", nil}
	case *EIdent:
		return e.ident(n.Name)
	case *EOld:
		if e.old == nil {
			efail("old() not allowed here")
		}
		ne := *e
		ne.st = e.old
		return ne.ev(n.X)
	case *EUn:
		v := e.ev(n.X)
		if n.Op == "!" {
			return SV{"(not " + v.T + ")", tBool}
		}
		return SV{"(- " + v.T + ")", tInt}
	case *EIte:
		c, a, b := e.ev(n.C), e.ev(n.A), e.ev(n.B)
		a, b = e.unifyNil(a, b)
		return SV{"(ite " + c.T + " " + a.T + " " + b.T + ")", a.Ty}
	case *EBin:
		return e.bin(n)
	case *EQuant:
		if sv, ok := e.expandOverLiteral(n); ok {
			return sv
		}
		ne := e.clone()
		var bs, ranges []string
		for _, v := range n.Vars {
			ty := e.resolveType(v.Type)
			nm := "q_" + v.Name
			if e.bound[nm] {
				nm = fmt.Sprintf("q%d_%s", len(e.bound), v.Name)
			}
			ne.bound[nm] = true
			ne.vars[v.Name] = SV{nm, ty}
			bs = append(bs, "("+nm+" "+e.sort(ty)+")")
			// typed quantification: integer variables range over their Go type
			if ty.Go != nil {
				if b, ok := ty.Go.Underlying().(*types.Basic); ok {
					if lo, hi, ok := intRange(b); ok && b.Kind() != types.Int && b.Kind() != types.Int64 {
						ranges = append(ranges, "(<= "+lo+" "+nm+")", "(<= "+nm+" "+hi+")")
					}
				}
			}
		}
		ne.hints = nil
		body := ne.ev(n.Body)
		if len(ranges) > 0 {
			if n.Forall {
				body.T = "(=> (and " + strings.Join(ranges, " ") + ") " + body.T + ")"
			} else {
				body.T = "(and " + strings.Join(ranges, " ") + " " + body.T + ")"
			}
		}
		var pats string
		for _, tr := range n.Trig {
			var ts []string
			for _, t := range tr {
				ne.inTrig = true
				ts = append(ts, ne.ev(t).T)
				ne.inTrig = false
			}
			pats += " :pattern (" + strings.Join(ts, " ") + ")"
		}
		q := "exists"
		if n.Forall {
			q = "forall"
		}
		if pats != "" {
			return SV{"(" + q + " (" + strings.Join(bs, " ") + ") (! " + body.T + pats + "))", tBool}
		}
		return SV{"(" + q + " (" + strings.Join(bs, " ") + ") " + body.T + ")", tBool}
	case *EField:
		return e.field(n)
	case *EIndex:
		xv := e.ev(n.X)
		iv := e.ev(n.I)
		if xv.Ty != nil && xv.Ty.MapK != nil {
			iv = e.coerceNil(iv, xv.Ty.MapK)
			return SV{"(select " + xv.T + " " + iv.T + ")", xv.Ty.MapV}
		}
		s := e.sort(xv.Ty)
		if si, ok := g.reg.seqs[s]; ok {
			return SV{"(" + si.At + " " + xv.T + " " + iv.T + ")", goT(elemGo(xv.Ty.Go, si))}
		}
		if strings.HasPrefix(s, "(Array Int") {
			if at, ok := xv.Ty.Go.Underlying().(*types.Array); ok {
				return SV{"(select " + xv.T + " " + iv.T + ")", goT(at.Elem())}
			}
		}
		efail("cannot index value of sort %s", s)
	case *EUpd:
		xv, iv, vv := e.ev(n.X), e.ev(n.I), e.ev(n.V)
		if xv.Ty == nil || xv.Ty.MapK == nil {
			s := e.sort(xv.Ty)
			if si, ok := g.reg.seqs[s]; ok {
				return SV{"(" + si.Upd + " " + xv.T + " " + iv.T + " " + vv.T + ")", xv.Ty}
			}
			efail("update of non-map")
		}
		iv = e.coerceNil(iv, xv.Ty.MapK)
		vv = e.coerceNil(vv, xv.Ty.MapV)
		return SV{"(store " + xv.T + " " + iv.T + " " + vv.T + ")", xv.Ty}
	case *ESlice:
		xv := e.ev(n.X)
		s := e.sort(xv.Ty)
		si, ok := g.reg.seqs[s]
		if !ok {
			efail("cannot slice sort %s", s)
		}
		lo := "0"
		if n.Lo != nil {
			lo = e.ev(n.Lo).T
		}
		hi := "(" + si.Len + " " + xv.T + ")"
		if n.Hi != nil {
			hi = e.ev(n.Hi).T
		}
		return SV{"(" + si.Sub + " " + xv.T + " " + lo + " " + hi + ")", xv.Ty}
	case *ECall:
		return e.call(n)
	case *ELit:
		ty := e.resolveType(n.Type)
		s := e.sort(ty)
		si := g.reg.structs[s]
		if si == nil {
			if len(n.Fields) == 0 && ty.Go != nil {
				return SV{g.zero(ty.Go), ty} // T{} of an opaque struct: its zero value
			}
			efail("composite literal of non-struct %s", n.Type)
		}
		args := make([]string, len(si.Fields))
		for i := range si.Fields {
			args[i] = g.zero(si.FTypes[i])
		}
		for i, f := range n.Fields {
			found := false
			for j, fn := range si.FNames {
				if fn == f {
					v := e.coerceNil(e.ev(n.Vals[i]), goT(si.FTypes[j]))
					args[j] = v.T
					found = true
				}
			}
			if !found {
				efail("no field %s in %s", f, n.Type)
			}
		}
		if len(args) == 0 {
			return SV{si.Ctor, ty}
		}
		return SV{"(" + si.Ctor + " " + strings.Join(args, " ") + ")", ty}
	case *ETypeIs:
		xv := e.ev(n.X)
		ty := e.resolveType(n.Type)
		return SV{fmt.Sprintf("(= (itag %s) %d)", xv.T, g.reg.Tag(ty.Go)), tBool}
	case *EAssert:
		xv := e.ev(n.X)
		ty := e.resolveType(n.Type)
		return SV{g.unboxIface(xv.T, ty.Go), ty}
	}
	efail("unsupported expression %T", x)
	return SV{}
}

func elemGo(t types.Type, si *SeqInfo) types.Type {
	if t != nil {
		switch u := t.Underlying().(type) {
		case *types.Slice:
			return u.Elem()
		case *types.Basic:
			return types.Typ[types.Byte]
		}
	}
	return si.ElemGo
}

func (e *Env) coerceNil(v SV, want *SType) SV {
	if v.Ty == nil && v.T == "nil" {
		return SV{e.ft.g.nilOf(want), want}
	}
	return v
}

func (e *Env) unifyNil(a, b SV) (SV, SV) {
	if a.Ty == nil && a.T == "nil" && b.Ty != nil {
		a = e.coerceNil(a, b.Ty)
	}
	if b.Ty == nil && b.T == "nil" && a.Ty != nil {
		b = e.coerceNil(b, a.Ty)
	}
	return a, b
}

func (g *Gen) nilOf(t *SType) string {
	s := g.reg.STSort(t)
	switch {
	case s == "Int":
		return "0"
	case s == "Iface":
		return "(mk_Iface 0 0)"
	}
	if si, ok := g.reg.seqs[s]; ok {
		return si.Nil
	}
	efail("nil of sort %s", s)
	return ""
}

func (e *Env) bin(n *EBin) SV {
	g := e.ft.g
	l, r := e.ev(n.L), e.ev(n.R)
	switch n.Op {
	case "&&":
		return SV{"(and " + l.T + " " + r.T + ")", tBool}
	case "||":
		return SV{"(or " + l.T + " " + r.T + ")", tBool}
	case "==>":
		return SV{"(=> " + l.T + " " + r.T + ")", tBool}
	case "<==>":
		return SV{"(= " + l.T + " " + r.T + ")", tBool}
	case "==", "!=":
		var t string
		if l.Ty == nil && l.T == "nil" {
			l, r = r, l
		}
		if r.Ty == nil && r.T == "nil" {
			s := e.sort(l.Ty)
			switch {
			case s == "Iface":
				t = "(= (itag " + l.T + ") 0)"
			case s == "Int":
				t = "(= " + l.T + " 0)"
			default:
				if si, ok := g.reg.seqs[s]; ok {
					t = "(" + si.IsNil + " " + l.T + ")"
				} else {
					efail("comparison of sort %s with nil", s)
				}
			}
		} else {
			ls, rs := e.sort(l.Ty), e.sort(r.Ty)
			if ls != rs {
				efail("comparison of different sorts %s and %s in %v", ls, rs, n)
			}
			t = "(= " + l.T + " " + r.T + ")"
			if _, ok := g.reg.seqs[ls]; ok && e.hints != nil && len(e.bound) == 0 {
				*e.hints = append(*e.hints, "(ext_"+ls+" "+l.T+" "+r.T+")")
			}
		}
		if n.Op == "!=" {
			t = "(not " + t + ")"
		}
		return SV{t, tBool}
	case "<", "<=", ">", ">=":
		return SV{"(" + n.Op + " " + l.T + " " + r.T + ")", tBool}
	case "+":
		if e.sort(l.Ty) != "Int" {
			if si, ok := g.reg.seqs[e.sort(l.Ty)]; ok {
				return SV{"(" + si.Cat + " " + l.T + " " + r.T + ")", l.Ty}
			}
		}
		return SV{"(+ " + l.T + " " + r.T + ")", tInt}
	case "-":
		return SV{"(- " + l.T + " " + r.T + ")", tInt}
	case "*":
		return SV{"(* " + l.T + " " + r.T + ")", tInt}
	case "/":
		return SV{"(div " + l.T + " " + r.T + ")", tInt}
	case "%":
		return SV{"(mod " + l.T + " " + r.T + ")", tInt}
	}
	efail("unknown operator %s", n.Op)
	return SV{}
}

func (e *Env) ident(name string) SV {
	g := e.ft.g
	if v, ok := e.vars[name]; ok {
		return v
	}
	if gv, ok := g.db.Ghosts[name]; ok {
		ty := g.resolveType(gv.Type, gv.File, g.filePkg(gv.File))
		return SV{e.ft.stateGet(e.st, "ghost|"+name, g.reg.STSort(ty)), ty}
	}
	if e.pkg != nil {
		if o := e.pkg.Scope().Lookup(name); o != nil {
			return e.object(o)
		}
	}
	efail("unknown identifier %q", name)
	return SV{}
}

func (e *Env) object(o types.Object) SV {
	g := e.ft.g
	switch ob := o.(type) {
	case *types.Const:
		return SV{g.constTerm(ob.Val(), ob.Type()), goT(ob.Type())}
	case *types.Var:
		s := g.reg.SortOf(ob.Type())
		return SV{e.ft.stateGet(e.st, "G|"+ob.Pkg().Path()+"."+ob.Name(), s), goT(ob.Type())}
	}
	efail("identifier %s is not a value", o.Name())
	return SV{}
}

func (g *Gen) constTerm(v constant.Value, t types.Type) string {
	switch v.Kind() {
	case constant.Bool:
		if constant.BoolVal(v) {
			return "true"
		}
		return "false"
	case constant.Int:
		s := v.ExactString()
		if strings.HasPrefix(s, "-") {
			return "(- " + s[1:] + ")"
		}
		return s
	case constant.String:
		return g.strLit(constant.StringVal(v))
	}
	efail("unsupported constant %v", v)
	return ""
}

func (e *Env) field(n *EField) SV {
	g := e.ft.g
	// qualified identifier?
	if id, ok := n.X.(*EIdent); ok {
		if _, isVar := e.vars[id.Name]; !isVar {
			if _, isGhost := g.db.Ghosts[id.Name]; !isGhost {
				path, ok := g.db.Imports[e.file][id.Name]
				if ok {
					tp := g.findPackage(path)
					if tp == nil {
						efail("package %s not loaded", path)
					}
					o := tp.Scope().Lookup(n.Name)
					if o == nil {
						efail("unknown %s.%s", id.Name, n.Name)
					}
					return e.object(o)
				}
			}
		}
	}
	xv := e.ev(n.X)
	if xv.Ty == nil || xv.Ty.Go == nil {
		efail("field %s of untyped value", n.Name)
	}
	return e.fieldOf(xv, n.Name)
}

func (e *Env) fieldOf(xv SV, name string) SV {
	g := e.ft.g
	t := xv.Ty.Go
	term := xv.T
	if p, ok := t.Underlying().(*types.Pointer); ok {
		es := g.reg.SortOf(p.Elem())
		h := e.ft.stateGet(e.st, "H|"+es, "(Array Int "+es+")")
		term = "(select " + h + " " + term + ")"
		t = p.Elem()
	}
	s := g.reg.SortOf(t)
	if xv.Ty.Raw != "" {
		s = xv.Ty.Raw
	}
	si := g.reg.structs[s]
	if si == nil {
		efail("field %s of non-struct sort %s", name, s)
	}
	for i, fn := range si.FNames {
		if fn == name {
			return SV{"(" + si.Fields[i] + " " + term + ")", goT(si.FTypes[i])}
		}
	}
	// embedded struct promotion (one level)
	for i, ft := range si.FTypes {
		if st, ok := ft.Underlying().(*types.Struct); ok {
			for j := 0; j < st.NumFields(); j++ {
				if st.Field(j).Name() == name {
					return e.fieldOf(SV{"(" + si.Fields[i] + " " + term + ")", goT(ft)}, name)
				}
			}
		}
	}
	efail("no field %s in %s", name, s)
	return SV{}
}

func (e *Env) call(n *ECall) SV {
	g := e.ft.g
	if n.Recv != nil {
		// x.f(args): qualified spec function alias.f is not supported; treat as method-style builtin
		efail("method-style call %s not supported", n.Fn)
	}
	switch n.Fn {
	case "len":
		xv := e.ev(n.Args[0])
		s := e.sort(xv.Ty)
		if si, ok := g.reg.seqs[s]; ok {
			return SV{"(" + si.Len + " " + xv.T + ")", tInt}
		}
		if xv.Ty != nil && xv.Ty.Go != nil {
			if at, ok := xv.Ty.Go.Underlying().(*types.Array); ok {
				return SV{fmt.Sprint(at.Len()), tInt}
			}
		}
		efail("len of sort %s", s)
	case "cat":
		a := e.ev(n.Args[0])
		si := g.reg.seqs[e.sort(a.Ty)]
		if si == nil {
			efail("cat of non-sequence")
		}
		t := a.T
		for _, x := range n.Args[1:] {
			t = "(" + si.Cat + " " + t + " " + e.ev(x).T + ")"
		}
		return SV{t, a.Ty}
	case "ext":
		a, b := e.ev(n.Args[0]), e.ev(n.Args[1])
		return SV{"(ext_" + e.sort(a.Ty) + " " + a.T + " " + b.T + ")", tBool}
	case "bytes":
		return SV{"(tobytes " + e.ev(n.Args[0]).T + ")", goT(types.NewSlice(types.Typ[types.Byte]))}
	case "string":
		return SV{"(tostring " + e.ev(n.Args[0]).T + ")", tString}
	case "seq":
		// seq(a, b, ...) sequence literal (element type from first argument)
		if len(n.Args) == 0 {
			efail("seq() needs arguments; use a typed nil/empty")
		}
		var ts []string
		var first SV
		for i, a := range n.Args {
			v := e.ev(a)
			if i == 0 {
				first = v
			}
			ts = append(ts, v.T)
		}
		if first.Ty == nil || first.Ty.Go == nil {
			efail("seq() of untyped elements")
		}
		sl := types.NewSlice(first.Ty.Go)
		ss := g.reg.SortOf(sl)
		return SV{g.seqLit(ss, ts), goT(sl)}
	case "emptyseq":
		// emptyseq(T) : empty, non-nil sequence of element type T given as identifier text
		efail("emptyseq unsupported")
	case "hint":
		// hint(e): always true; only plants the term e in the query so that triggers can fire on it
		xv := e.ev(n.Args[0])
		srt := e.sort(xv.Ty)
		fn := g.hintFn(srt)
		return SV{"(" + fn + " " + xv.T + ")", tBool}
	case "mar", "marlp":
		// mar(x): protobuf encoding of message value x (E-codec); sub-messages referenced by pointer are read in the current state
		xv := e.ev(n.Args[0])
		var ty types.Type
		if xv.Ty != nil {
			ty = xv.Ty.Go
		}
		if xv.Ty != nil && strings.HasPrefix(xv.Ty.Raw, "Flat_") {
			// already flat
			mar, _, _ := g.codecFnsSort(xv.Ty.Raw, xv.Ty.Go, n.Fn == "marlp")
			return SV{"(" + mar + " " + xv.T + ")", goT(types.NewSlice(types.Typ[types.Byte]))}
		}
		if ty == nil {
			efail("mar of untyped value")
		}
		mar, _, _ := g.codecFns(ty, n.Fn == "marlp")
		flat := g.flattenWith(xv.T, ty, func(srt string) string { return e.ft.stateGet(e.st, "H|"+srt, "(Array Int "+srt+")") })
		return SV{"(" + mar + " " + flat + ")", goT(types.NewSlice(types.Typ[types.Byte]))}
	case "mhas", "mget":
		// mhas(m, k) / mget(m, k): membership and lookup in a Go map value (current state)
		mv := e.ev(n.Args[0])
		if mv.Ty == nil || mv.Ty.Go == nil {
			efail("%s of untyped value", n.Fn)
		}
		mt, ok := mv.Ty.Go.Underlying().(*types.Map)
		if !ok {
			efail("%s of non-map", n.Fn)
		}
		_, _, cell := g.mapSorts(mt)
		kv := e.coerceNil(e.ev(n.Args[1]), goT(mt.Key()))
		h := e.ft.stateGet(e.st, "M|"+cell, "(Array Int "+cell+")")
		cur := "(select " + h + " " + mv.T + ")"
		if n.Fn == "mhas" && e.inTrig {
			// inside a trigger only the lookup term is usable (patterns admit no connectives)
			return SV{fmt.Sprintf("(select (%s.dom %s) %s)", cell, cur, kv.T), tBool}
		}
		if n.Fn == "mhas" {
			return SV{fmt.Sprintf("(and (not (= %s 0)) (select (%s.dom %s) %s))", mv.T, cell, cur, kv.T), tBool}
		}
		return SV{fmt.Sprintf("(select (%s.val %s) %s)", cell, cur, kv.T), goT(mt.Elem())}
	case "fieldref":
		// fieldref(p, "f"): the identity of the field f of the struct p points to (for opaque fields such as mutexes)
		pv := e.ev(n.Args[0])
		fname, ok := n.Args[1].(*EStr)
		if !ok || pv.Ty == nil || pv.Ty.Go == nil {
			efail("fieldref(p, \"field\")")
		}
		pt, ok := pv.Ty.Go.Underlying().(*types.Pointer)
		if !ok {
			efail("fieldref of non-pointer")
		}
		si := g.reg.structs[g.reg.SortOf(pt.Elem())]
		if si == nil {
			efail("fieldref into opaque struct")
		}
		for i, fn := range si.FNames {
			if fn == fname.V {
				return SV{fmt.Sprintf("(- (- (* %s 64)) %d)", pv.T, i+1), tInt}
			}
		}
		efail("no field %s", fname.V)
	case "nextRef":
		// nextRef(): allocation watermark; references >= nextRef() are not yet allocated
		return SV{e.ft.stateGet(e.st, "$next", "Int"), tInt}
	case "mkflat":
		// mkflat(T, a, b, ...): flat message value of type T from its components in field order
		// (a pointer-to-message field contributes two components: isNil, value)
		id, ok := exprTypeName(n.Args[0])
		if !ok {
			efail("mkflat(T, ...) needs a type name")
		}
		ty := e.resolveType(id)
		fs := g.flatSort(ty.Go)
		si := g.reg.structs[fs]
		if si == nil || len(si.Fields) != len(n.Args)-1 {
			efail("mkflat(%s): wrong number of components", id)
		}
		var as []string
		for i, a := range n.Args[1:] {
			v := e.coerceNil(e.ev(a), goT(si.FTypes[i]))
			as = append(as, v.T)
		}
		return SV{"(" + si.Ctor + " " + strings.Join(as, " ") + ")", &SType{Go: ty.Go, Raw: fs}}
	case "flat":
		xv := e.ev(n.Args[0])
		if xv.Ty == nil || xv.Ty.Go == nil {
			efail("flat of untyped value")
		}
		flat := g.flattenWith(xv.T, xv.Ty.Go, func(srt string) string { return e.ft.stateGet(e.st, "H|"+srt, "(Array Int "+srt+")") })
		return SV{flat, &SType{Go: xv.Ty.Go, Raw: g.flatSort(xv.Ty.Go)}}
	case "unm", "venc", "unmlp", "venclp":
		// unm(T, b): (flat) message decoded from b ; venc(T, b): b is a valid encoding of a T
		id, ok := exprTypeName(n.Args[0])
		if !ok {
			efail("%s(T, b) needs a type name", n.Fn)
		}
		ty := e.resolveType(id)
		bv := e.ev(n.Args[1])
		_, unm, venc := g.codecFns(ty.Go, strings.HasSuffix(n.Fn, "lp"))
		if strings.HasPrefix(n.Fn, "unm") {
			return SV{"(" + unm + " " + bv.T + ")", &SType{Go: ty.Go, Raw: g.flatSort(ty.Go)}}
		}
		return SV{"(" + venc + " " + bv.T + ")", tBool}
	case "typeof":
		xv := e.ev(n.Args[0])
		return SV{"(itag " + xv.T + ")", tInt}
	case "ite":
		c, a, b := e.ev(n.Args[0]), e.ev(n.Args[1]), e.ev(n.Args[2])
		a, b = e.unifyNil(a, b)
		return SV{"(ite " + c.T + " " + a.T + " " + b.T + ")", a.Ty}
	case "H":
		// H(T): the heap of cells of Go type T, as a ghost map from refs
		id, ok := exprTypeName(n.Args[0])
		if !ok {
			efail("H(T) needs a type name")
		}
		ty := e.resolveType(id)
		es := e.sort(ty)
		return SV{e.ft.stateGet(e.st, "H|"+es, "(Array Int "+es+")"), &SType{MapK: tInt, MapV: ty}}
	case "deref":
		xv := e.ev(n.Args[0])
		p, ok := xv.Ty.Go.Underlying().(*types.Pointer)
		if !ok {
			efail("deref of non-pointer")
		}
		es := g.reg.SortOf(p.Elem())
		h := e.ft.stateGet(e.st, "H|"+es, "(Array Int "+es+")")
		return SV{"(select " + h + " " + xv.T + ")", goT(p.Elem())}
	case "ref":
		// ref(x): the raw payload/reference of an interface value
		xv := e.ev(n.Args[0])
		if e.sort(xv.Ty) == "Iface" {
			return SV{"(ipl " + xv.T + ")", tInt}
		}
		return SV{xv.T, tInt}
	}
	sf, ok := g.db.Funcs[n.Fn]
	if !ok {
		efail("unknown spec function %q", n.Fn)
	}
	if len(sf.Params) != len(n.Args) {
		efail("spec function %s: %d arguments, want %d", n.Fn, len(n.Args), len(sf.Params))
	}
	var args []SV
	for i, a := range n.Args {
		pt := g.resolveType(sf.Params[i].Type, sf.File, g.filePkg(sf.File))
		v := e.coerceNil(e.ev(a), pt)
		if as, ps := e.sort(v.Ty), e.sort(pt); as != ps {
			efail("spec function %s: argument %d has sort %s, want %s", n.Fn, i, as, ps)
		}
		args = append(args, v)
	}
	rt := g.resolveType(sf.Ret, sf.File, g.filePkg(sf.File))
	if sf.Body != nil && !sf.Opaque {
		if e.depth > 20 {
			efail("spec function expansion too deep (%s)", n.Fn)
		}
		ne := &Env{ft: e.ft, vars: map[string]SV{}, st: e.st, old: e.old, file: sf.File, pkg: g.filePkg(sf.File), bound: e.bound, depth: e.depth + 1}
		for i, p := range sf.Params {
			ne.vars[p.Name] = args[i]
		}
		v := ne.ev(sf.Body)
		if v.Ty != nil && v.Ty.Raw != "" {
			return v
		}
		return SV{v.T, rt}
	}
	g.declareSpecFunc(sf)
	if len(args) == 0 {
		return SV{"sf_" + sf.Name, rt}
	}
	var ts []string
	for _, a := range args {
		ts = append(ts, a.T)
	}
	return SV{"(sf_" + sf.Name + " " + strings.Join(ts, " ") + ")", rt}
}

// hintFn declares (once) an always-true predicate used to plant terms for trigger matching.
func (g *Gen) hintFn(srt string) string {
	fn := "hint_" + mangle(srt)
	if !g.zeroFns[fn] {
		g.zeroFns[fn] = true
		g.reg.decls = append(g.reg.decls, fmt.Sprintf("(declare-fun %s (%s) Bool)", fn, srt),
			fmt.Sprintf("(assert (forall ((x %s)) (! (%s x) :pattern ((%s x)))))", srt, fn, fn))
	}
	return fn
}

// expandOverLiteral: a quantifier over the indices of a sequence whose value is a literal of known length
//   exists j int :: 0 <= j && j < len(X) && R(j)      forall j int :: 0 <= j && j < len(X) ==> R(j)
// is the finite disjunction / conjunction of R(0) .. R(n-1). Purely an aid to the solvers (an equivalent formula).
func (e *Env) expandOverLiteral(n *EQuant) (SV, bool) {
	if len(n.Vars) != 1 || e.ft == nil {
		return SV{}, false
	}
	v := n.Vars[0]
	if v.Type != "int" {
		return SV{}, false
	}
	var rng, rest Expr
	b, ok := n.Body.(*EBin)
	if !ok {
		return SV{}, false
	}
	if n.Forall && b.Op == "==>" {
		rng, rest = b.L, b.R
	} else if !n.Forall && b.Op == "&&" {
		// ((0 <= j && j < len(X)) && R1) && R2 ... : peel the leftmost range conjunct
		var conj []Expr
		var flat func(x Expr)
		flat = func(x Expr) {
			if bb, ok := x.(*EBin); ok && bb.Op == "&&" {
				flat(bb.L)
				flat(bb.R)
				return
			}
			conj = append(conj, x)
		}
		flat(b)
		if len(conj) < 3 {
			return SV{}, false
		}
		rng = &EBin{Op: "&&", L: conj[0], R: conj[1]}
		rest = conj[2]
		for _, c := range conj[3:] {
			rest = &EBin{Op: "&&", L: rest, R: c}
		}
	} else {
		return SV{}, false
	}
	rb, ok := rng.(*EBin)
	if !ok || rb.Op != "&&" {
		return SV{}, false
	}
	lo, ok1 := rb.L.(*EBin)
	hi, ok2 := rb.R.(*EBin)
	if !ok1 || !ok2 || lo.Op != "<=" || hi.Op != "<" {
		return SV{}, false
	}
	if z, ok := lo.L.(*EInt); !ok || z.V != "0" {
		return SV{}, false
	}
	if id, ok := lo.R.(*EIdent); !ok || id.Name != v.Name {
		return SV{}, false
	}
	if id, ok := hi.L.(*EIdent); !ok || id.Name != v.Name {
		return SV{}, false
	}
	lc, ok := hi.R.(*ECall)
	if !ok || lc.Fn != "len" || len(lc.Args) != 1 || lc.Recv != nil {
		return SV{}, false
	}
	var xt string
	func() {
		defer func() {
			if r := recover(); r != nil {
				xt = ""
			}
		}()
		xt = e.ev(lc.Args[0]).T
	}()
	if xt == "" {
		return SV{}, false
	}
	cnt := e.ft.literalLen(xt)
	if cnt < 0 || cnt > 64 {
		return SV{}, false
	}
	var parts []string
	for k := 0; k < cnt; k++ {
		ne := e.clone()
		ne.vars[v.Name] = SV{fmt.Sprint(k), tInt}
		ne.hints = nil
		parts = append(parts, ne.ev(rest).T)
	}
	switch {
	case len(parts) == 0 && n.Forall:
		return SV{"true", tBool}, true
	case len(parts) == 0:
		return SV{"false", tBool}, true
	case n.Forall:
		return SV{"(and true " + strings.Join(parts, " ") + ")", tBool}, true
	}
	return SV{"(or false " + strings.Join(parts, " ") + ")", tBool}, true
}

var litSeqRe = regexp.MustCompile(`^\(lit([0-9]+)_Seq_`)

// literalLen: the length of a sequence term that is (or is defined by a fact to be) a literal; -1 if unknown.
func (ft *FT) literalLen(t string) int {
	for depth := 0; depth < 4; depth++ {
		if m := litSeqRe.FindStringSubmatch(t); m != nil {
			n, _ := strconv.Atoi(m[1])
			return n
		}
		if strings.HasPrefix(t, "lit0_Seq_") {
			return 0
		}
		if !strings.HasPrefix(t, "|") {
			return -1
		}
		found := ""
		pre := "(= " + t + " "
		for _, f := range ft.facts {
			if strings.HasPrefix(f, pre) {
				found = strings.TrimSuffix(f[len(pre):], ")")
				break
			}
		}
		if found == "" {
			return -1
		}
		t = found
	}
	return -1
}
