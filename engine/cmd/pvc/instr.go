package main

// Translation of individual SSA instructions.

import (
	"fmt"
	"go/ast"
	"go/constant"
	"go/token"
	"go/types"
	"strings"

	"golang.org/x/tools/go/ssa"
)

type astIdent = ast.Ident

// val returns the translator value of an SSA value.
func (fr *frame) val(v ssa.Value) Val {
	ft := fr.ft
	if x, ok := fr.vals[v]; ok {
		return x
	}
	switch c := v.(type) {
	case *ssa.Const:
		return ft.constVal(c)
	case *ssa.Global:
		s := ft.g.reg.SortOf(c.Type().(*types.Pointer).Elem())
		name := "G|" + c.Pkg.Pkg.Path() + "." + c.Name()
		return Val{Ty: c.Type(), P: &Place{Global: name, Sort: s, Ty: c.Type().(*types.Pointer).Elem(), NonNil: true}}
	case *ssa.Function:
		return Val{T: "0", Ty: c.Type(), Clo: &Closure{Fn: c}}
	case *ssa.Builtin:
		return Val{T: "0", Ty: c.Type()}
	}
	ft.unsupported("use of untranslated value %s (%T) in %s", v.Name(), v, fr.fn)
	return Val{T: ft.fresh("undef", ft.g.reg.SortOf(v.Type())), Ty: v.Type()}
}

func (ft *FT) constVal(c *ssa.Const) Val {
	t := c.Type()
	if c.Value == nil {
		// zero value / nil
		return Val{T: ft.g.zero(t), Ty: t}
	}
	switch c.Value.Kind() {
	case constant.Bool, constant.Int, constant.String:
		return Val{T: ft.g.constTerm(c.Value, t), Ty: t}
	case constant.Float:
		return Val{T: "0.0", Ty: t}
	}
	ft.unsupported("constant %v", c)
	return Val{T: "0", Ty: t}
}

// asValue gives the plain SMT term; buffers are snapshotted (escape).
func (fr *frame) asValue(v Val, st *State) string {
	if v.Buf != nil {
		fr.ft.escSite = append(fr.ft.escSite, site{v.Buf.Root, fr.curBlk, fr.curIdx})
	}
	if v.P != nil && v.P.Seq != nil && v.P.Seq.Buf == nil {
		// &s[i] of an (immutable) slice value used as a pointer: modelled as a pointer to a fresh cell holding a copy
		// of the element (sound as long as neither the slice nor the element is mutated afterwards, which the
		// translator's slice-mutation check enforces for the slice)
		ft := fr.ft
		es := ft.g.reg.SortOf(v.P.Ty)
		ref := fr.newRef(st)
		hs := "(Array Int " + es + ")"
		h := ft.stateGet(st, "H|"+es, hs)
		nh := ft.fresh("h", hs)
		ft.fact("(= " + nh + " (store " + h + " " + ref + " " + ft.load(v.P, st) + "))")
		ft.pendingAlloc = fr.curBlk
		ft.stateSet(fr, st, "H|"+es, hs, nh)
		ft.assumed["address of a slice element is treated as a pointer to a copy of the element"] = true
		return ref
	}
	if v.P != nil && v.P.Seq == nil {
		// a pointer used as a value: must be a plain reference to a whole cell
		if len(v.P.Path) == 0 && v.P.Global == "" {
			return v.P.Ref
		}
		// pointer to a field whose type is opaque (e.g. &ks.mtx): only its identity matters; it is encoded as a
		// negative number, disjoint from every cell reference and injective in (cell, field)
		if len(v.P.Path) == 1 && v.P.Path[0].SI != nil && v.P.Global == "" {
			fs := fr.ft.g.reg.SortOf(v.P.Ty)
			if fr.ft.g.reg.structs[fs] == nil && !isNilable(fs) && fs != "Bool" && fs != "Bytes" {
				return fmt.Sprintf("(- (- (* %s 64)) %d)", v.P.Ref, v.P.Path[0].Field+1)
			}
		}
		fr.ft.unsupported("interior pointer used as a value in %s", fr.fn)
		return "0"
	}
	return fr.plain(v, st)
}

// placeOf interprets a pointer value as a place whose content has type elem.
func (fr *frame) placeOf(v Val, elem types.Type) *Place {
	if v.P != nil {
		return v.P
	}
	s := fr.ft.g.reg.SortOf(elem)
	return &Place{Var: "H|" + s, Sort: s, Ref: v.T, Ty: elem}
}

func (fr *frame) nilCheck(p *Place, reach string, what string) {
	if p.NonNil || p.Global != "" || p.Seq != nil {
		return
	}
	fr.ft.addObl(fr, "nil", fr.tag+what, reach, "(not (= "+p.Ref+" 0))", "nil dereference: "+what, nil, nil)
}

func (fr *frame) instr(in ssa.Instruction, st *State, reach string) {
	ft := fr.ft
	g := ft.g
	switch x := in.(type) {
	case *ssa.DebugRef:
		return
	case *ssa.Alloc:
		elem := x.Type().(*types.Pointer).Elem()
		s := g.reg.SortOf(elem)
		ref := fr.newRef(st)
		hs := "(Array Int " + s + ")"
		h := ft.stateGet(st, "H|"+s, hs)
		nh := ft.fresh("h", hs)
		ft.fact("(= " + nh + " (store " + h + " " + ref + " " + g.zero(elem) + "))")
		ft.pendingAlloc = x.Block()
		ft.stateSet(fr, st, "H|"+s, hs, nh)
		fr.vals[x] = Val{T: ref, Ty: x.Type(), P: &Place{Var: "H|" + s, Sort: s, Ref: ref, Ty: elem, NonNil: true, AllocBlk: x.Block()}}
	case *ssa.FieldAddr:
		base := fr.val(x.X)
		pt := x.X.Type().Underlying().(*types.Pointer)
		stT := pt.Elem()
		pl := fr.placeOf(base, stT)
		fr.nilCheck(pl, reach, "field")
		si := g.reg.structs[g.reg.SortOf(stT)]
		if si == nil {
			ft.unsupported("field address in opaque struct %s", stT)
			fr.vals[x] = Val{T: "0", Ty: x.Type()}
			return
		}
		np := *pl
		np.Path = append(append([]PathEl{}, pl.Path...), PathEl{SI: si, Field: x.Field})
		np.Ty = si.FTypes[x.Field]
		np.NonNil = true
		fr.vals[x] = Val{Ty: x.Type(), P: &np}
	case *ssa.IndexAddr:
		base := fr.val(x.X)
		idx := fr.asValue(fr.val(x.Index), st)
		switch xt := x.X.Type().Underlying().(type) {
		case *types.Pointer: // pointer to array
			at := xt.Elem().Underlying().(*types.Array)
			pl := fr.placeOf(base, xt.Elem())
			fr.nilCheck(pl, reach, "index")
			if _, isConst := x.Index.(*ssa.Const); !isConst {
				ft.addObl(fr, "idx", fr.tag, reach, fmt.Sprintf("(and (<= 0 %s) (< %s %d))", idx, idx, at.Len()), "array index", nil, nil)
			}
			np := *pl
			np.Path = append(append([]PathEl{}, pl.Path...), PathEl{Idx: idx, ASort: g.reg.SortOf(xt.Elem())})
			np.Ty = at.Elem()
			np.NonNil = true
			fr.vals[x] = Val{Ty: x.Type(), P: &np}
		case *types.Slice:
			var ln string
			si := g.reg.seqs[g.reg.SortOf(xt)]
			bv := base
			if base.Buf != nil {
				ln = fr.bufLen(base.Buf, st)
			} else {
				bv = Val{T: fr.asValue(base, st), Ty: base.Ty}
				ln = "(" + si.Len + " " + bv.T + ")"
			}
			ft.addObl(fr, "idx", fr.tag, reach, fmt.Sprintf("(and (<= 0 %s) (< %s %s))", idx, idx, ln), "slice index", nil, nil)
			fr.vals[x] = Val{Ty: x.Type(), P: &Place{Seq: &bv, Idx: idx, Ty: xt.Elem(), NonNil: true}}
		default:
			ft.unsupported("IndexAddr on %s", x.X.Type())
		}
	case *ssa.UnOp:
		fr.unop(x, st, reach)
	case *ssa.Store:
		addr := fr.val(x.Addr)
		elem := x.Addr.Type().Underlying().(*types.Pointer).Elem()
		pl := fr.placeOf(addr, elem)
		fr.nilCheck(pl, reach, "store")
		if pl.Global != "" && fr.fn.Name() != "init" {
			ft.addObl(fr, "global-write", fr.tag+strings.TrimPrefix(pl.Global, "G|"+repoPrefix+"/"), reach, "false", "assigns a package-level variable (hidden state / race)", []string{"C09", "C20"}, nil)
		}
		v := fr.val(x.Val)
		fr.store(pl, fr.asValue(v, st), st)
		if v.DynT != nil || v.Clo != nil {
			// remember static knowledge about the cell (single-assignment heuristics are not tracked): drop
		}
	case *ssa.BinOp:
		fr.binop(x, st, reach)
	case *ssa.Phi:
		return
	case *ssa.Call:
		fr.call(x, x, st, reach)
	case *ssa.Defer:
		fr.defers = append(fr.defers, deferred{x, reach})
	case *ssa.RunDefers:
		for i := len(fr.defers) - 1; i >= 0; i-- {
			d := fr.defers[i]
			// execute under the guard the defer was pushed with
			pre := st.clone()
			fr.call(d.call, nil, st, "(and "+reach+" "+d.guard+")")
			if d.guard != "true" && d.guard != reach {
				merged := ft.joinStates([]*State{st, pre}, []string{d.guard, "(not " + d.guard + ")"})
				st.vars = merged.vars
			}
		}
	case *ssa.Extract:
		t := fr.val(x.Tuple)
		if x.Index < len(t.Tuple) {
			fr.vals[x] = t.Tuple[x.Index]
		} else {
			ft.unsupported("extract from non-tuple in %s", fr.fn)
			fr.vals[x] = Val{T: ft.fresh("undef", g.reg.SortOf(x.Type())), Ty: x.Type()}
		}
	case *ssa.MakeInterface:
		v := fr.val(x.X)
		var t string
		if v.Clo != nil {
			t = fmt.Sprintf("(mk_Iface %d 0)", g.reg.Tag(x.X.Type()))
		} else {
			t = g.boxIface(fr.asValue(v, st), x.X.Type())
		}
		fr.vals[x] = Val{T: t, Ty: x.Type(), DynT: x.X.Type()}
	case *ssa.ChangeInterface:
		v := fr.val(x.X)
		fr.vals[x] = Val{T: fr.asValue(v, st), Ty: x.Type(), DynT: v.DynT}
	case *ssa.ChangeType:
		v := fr.val(x.X)
		if g.reg.SortOf(x.Type()) != g.reg.SortOf(x.X.Type()) {
			ft.unsupported("ChangeType between sorts %s and %s", x.X.Type(), x.Type())
		}
		if v.Clo != nil {
			fr.vals[x] = Val{T: "0", Ty: x.Type(), Clo: v.Clo}
			return
		}
		fr.vals[x] = Val{T: fr.asValue(v, st), Ty: x.Type()}
	case *ssa.Convert:
		fr.convert(x, st)
	case *ssa.Slice:
		fr.slice(x, st, reach)
	case *ssa.MakeSlice:
		ss := g.reg.SortOf(x.Type())
		ln := fr.asValue(fr.val(x.Len), st)
		ft.addObl(fr, "makeslice", fr.tag, reach, "(>= "+ln+" 0)", "make: negative length", nil, nil)
		ref := fr.newRef(st)
		hs := "(Array Int " + ss + ")"
		h := ft.stateGet(st, "B|"+ss, hs)
		nh := ft.fresh("B", hs)
		elem := x.Type().Underlying().(*types.Slice).Elem()
		ft.fact("(= " + nh + " (store " + h + " " + ref + " " + g.zeros(ss, ln, g.zero(elem)) + "))")
		ft.stateSet(fr, st, "B|"+ss, hs, nh)
		fr.vals[x] = Val{Ty: x.Type(), Buf: &Buf{Ref: ref, Sort: ss, Root: x}}
	case *ssa.Field:
		v := fr.val(x.X)
		si := g.reg.structs[g.reg.SortOf(x.X.Type())]
		if si == nil {
			ft.unsupported("Field of opaque struct %s", x.X.Type())
			fr.vals[x] = Val{T: ft.fresh("undef", g.reg.SortOf(x.Type())), Ty: x.Type()}
			return
		}
		fr.vals[x] = Val{T: "(" + si.Fields[x.Field] + " " + fr.asValue(v, st) + ")", Ty: x.Type()}
	case *ssa.Index:
		v := fr.val(x.X)
		idx := fr.asValue(fr.val(x.Index), st)
		switch xt := x.X.Type().Underlying().(type) {
		case *types.Array:
			ft.addObl(fr, "idx", fr.tag, reach, fmt.Sprintf("(and (<= 0 %s) (< %s %d))", idx, idx, xt.Len()), "array index", nil, nil)
			fr.vals[x] = Val{T: "(select " + fr.asValue(v, st) + " " + idx + ")", Ty: x.Type()}
		default: // string
			s := fr.asValue(v, st)
			ft.addObl(fr, "idx", fr.tag, reach, fmt.Sprintf("(and (<= 0 %s) (< %s (len_Str %s)))", idx, idx, s), "string index", nil, nil)
			fr.vals[x] = Val{T: "(at_Str " + s + " " + idx + ")", Ty: x.Type()}
		}
	case *ssa.TypeAssert:
		v := fr.asValue(fr.val(x.X), st)
		if _, isIface := x.AssertedType.Underlying().(*types.Interface); isIface {
			// interface-to-interface assertion: succeeds iff dynamic type implements; modelled as unknown
			ok := ft.fresh("taok", "Bool")
			if x.CommaOk {
				fr.vals[x] = Val{Ty: x.Type(), Tuple: []Val{{T: "(ite " + ok + " " + v + " (mk_Iface 0 0))", Ty: x.AssertedType}, {T: ok, Ty: types.Typ[types.Bool]}}}
			} else {
				ft.addObl(fr, "assert-type", fr.tag, reach, ok, "interface type assertion", nil, nil)
				fr.vals[x] = Val{T: v, Ty: x.AssertedType}
			}
			return
		}
		ok := fmt.Sprintf("(= (itag %s) %d)", v, g.reg.Tag(x.AssertedType))
		res := g.unboxIface(v, x.AssertedType)
		if x.CommaOk {
			fr.vals[x] = Val{Ty: x.Type(), Tuple: []Val{{T: "(ite " + ok + " " + res + " " + g.zero(x.AssertedType) + ")", Ty: x.AssertedType}, {T: ok, Ty: types.Typ[types.Bool]}}}
		} else {
			ft.addObl(fr, "assert-type", fr.tag, reach, ok, "type assertion", nil, nil)
			fr.vals[x] = Val{T: res, Ty: x.AssertedType}
		}
	case *ssa.MakeClosure:
		var binds []Val
		for _, b := range x.Bindings {
			binds = append(binds, fr.val(b))
		}
		fr.vals[x] = Val{T: "0", Ty: x.Type(), Clo: &Closure{Fn: x.Fn.(*ssa.Function), Bind: binds}}
	case *ssa.If:
		c := fr.asValue(fr.val(x.Cond), st)
		b := x.Block()
		fr.edge[[2]*ssa.BasicBlock{b, b.Succs[0]}] = fr.mkEdge(reach, c, b, b.Succs[0])
		fr.edge[[2]*ssa.BasicBlock{b, b.Succs[1]}] = fr.mkEdge(reach, "(not "+c+")", b, b.Succs[1])
	case *ssa.Jump:
		b := x.Block()
		fr.edge[[2]*ssa.BasicBlock{b, b.Succs[0]}] = reach
	case *ssa.Return:
		var vs []Val
		for _, r := range x.Results {
			v := fr.val(r)
			vs = append(vs, Val{T: fr.asValue(v, st), Ty: r.Type(), DynT: v.DynT})
		}
		fr.rets = append(fr.rets, retPoint{reach, vs, st.clone()})
	case *ssa.Panic:
		if fr.c != nil && fr.c.MayPanic && fr.top {
			return
		}
		ft.addObl(fr, "panic-call", fr.tag, reach, "false", "explicit panic reachable", nil, nil)
	case *ssa.MakeMap:
		fr.makeMap(x, st)
	case *ssa.MapUpdate:
		fr.mapUpdate(x, st, reach)
	case *ssa.Lookup:
		fr.lookup(x, st, reach)
	case *ssa.Range, *ssa.Next:
		fr.rangeNext(in, st, reach)
	case *ssa.Go, *ssa.Select, *ssa.Send, *ssa.MakeChan:
		ft.unsupported("concurrency instruction %T in %s", in, fr.fn)
	default:
		ft.unsupported("instruction %T in %s", in, fr.fn)
		if v, ok := in.(ssa.Value); ok {
			fr.vals[v] = Val{T: ft.fresh("undef", g.reg.SortOf(v.Type())), Ty: v.Type()}
		}
	}
}

func (fr *frame) mkEdge(reach, cond string, from, to *ssa.BasicBlock) string {
	e := fr.ft.fresh(fmt.Sprintf("e_%d_%d", from.Index, to.Index), "Bool")
	fr.ft.fact("(= " + e + " (and " + reach + " " + cond + "))")
	return e
}

func (fr *frame) newRef(st *State) string {
	ft := fr.ft
	nx := ft.stateGet(st, "$next", "Int")
	ref := ft.fresh("ref", "Int")
	ft.fact("(= " + ref + " " + nx + ")")
	nn := ft.fresh("next", "Int")
	ft.fact("(= " + nn + " (+ " + nx + " 1))")
	ft.fact("(> " + ref + " 0)")
	st.vars["$next"] = nn
	return ref
}

func (fr *frame) bufLen(b *Buf, st *State) string {
	if b.Lo != "" {
		return "(- " + b.Hi + " " + b.Lo + ")"
	}
	si := fr.ft.g.reg.seqs[b.Sort]
	return "(" + si.Len + " (select " + fr.ft.stateGet(st, "B|"+b.Sort, "(Array Int "+b.Sort+")") + " " + b.Ref + "))"
}

func (fr *frame) unop(x *ssa.UnOp, st *State, reach string) {
	ft := fr.ft
	switch x.Op {
	case token.MUL: // load
		addr := fr.val(x.X)
		elem := x.X.Type().Underlying().(*types.Pointer).Elem()
		pl := fr.placeOf(addr, elem)
		fr.nilCheck(pl, reach, "load")
		if pl.Global != "" && ft.g.writtenGlobals()[pl.Global] {
			ft.addObl(fr, "global-read", fr.tag+strings.TrimPrefix(pl.Global, "G|"+repoPrefix+"/"), reach, "false", "reads a package-level variable that some function assigns (hidden state / race)", []string{"C09", "C20"}, nil)
		}
		s := ft.g.reg.SortOf(elem)
		c := ft.fresh("ld_"+x.Name(), s)
		ft.fact("(= " + c + " " + ft.load(pl, st) + ")")
		ft.valueInv(c, x.Type(), 0)
		fr.vals[x] = Val{T: c, Ty: x.Type()}
	case token.NOT:
		fr.vals[x] = Val{T: "(not " + fr.asValue(fr.val(x.X), st) + ")", Ty: x.Type()}
	case token.SUB:
		t := "(- " + fr.asValue(fr.val(x.X), st) + ")"
		fr.vals[x] = Val{T: ft.wrap(t, x.Type()), Ty: x.Type()}
	default:
		ft.unsupported("unary operator %s in %s", x.Op, fr.fn)
		fr.vals[x] = Val{T: ft.fresh("undef", ft.g.reg.SortOf(x.Type())), Ty: x.Type()}
	}
}

// wrap applies machine arithmetic: unsigned types wrap modulo 2^k; signed 64-bit is assumed not to overflow (A-int).
func (ft *FT) wrap(t string, ty types.Type) string {
	b, ok := ty.Underlying().(*types.Basic)
	if !ok {
		return t
	}
	switch b.Kind() {
	case types.Uint8:
		return "(mod " + t + " 256)"
	case types.Uint16:
		return "(mod " + t + " 65536)"
	case types.Uint32:
		return "(mod " + t + " 4294967296)"
	case types.Uint, types.Uint64, types.Uintptr:
		return "(mod " + t + " 18446744073709551616)"
	case types.Int8, types.Int16, types.Int32:
		ft.unsupported("arithmetic on %s", b)
	}
	return t
}

func (fr *frame) binop(x *ssa.BinOp, st *State, reach string) {
	ft := fr.ft
	g := ft.g
	l := fr.asValue(fr.val(x.X), st)
	r := fr.asValue(fr.val(x.Y), st)
	s := g.reg.SortOf(x.X.Type())
	var t string
	switch x.Op {
	case token.ADD:
		if s == "Str" {
			t = "(cat_Str " + l + " " + r + ")"
		} else {
			t = ft.wrap("(+ "+l+" "+r+")", x.Type())
		}
	case token.SUB:
		t = ft.wrap("(- "+l+" "+r+")", x.Type())
	case token.MUL:
		t = ft.wrap("(* "+l+" "+r+")", x.Type())
	case token.QUO:
		ft.addObl(fr, "div", fr.tag, reach, "(not (= "+r+" 0))", "division by zero", nil, nil)
		// Go truncates toward zero; operands here are non-negative in all uses, assert it
		if b, ok := x.Type().Underlying().(*types.Basic); ok && b.Info()&types.IsUnsigned == 0 {
			ft.unsupported("signed division in %s", fr.fn)
		}
		t = "(div " + l + " " + r + ")"
	case token.REM:
		ft.addObl(fr, "div", fr.tag, reach, "(not (= "+r+" 0))", "division by zero", nil, nil)
		if b, ok := x.Type().Underlying().(*types.Basic); ok && b.Info()&types.IsUnsigned == 0 {
			ft.unsupported("signed remainder in %s", fr.fn)
		}
		t = "(mod " + l + " " + r + ")"
	case token.EQL, token.NEQ:
		t = fr.equal(l, r, x.X.Type(), x.Y.Type(), x)
		if x.Op == token.NEQ {
			t = "(not " + t + ")"
		}
	case token.LSS:
		t = fr.cmp("<", l, r, s)
	case token.LEQ:
		t = fr.cmp("<=", l, r, s)
	case token.GTR:
		t = fr.cmp(">", l, r, s)
	case token.GEQ:
		t = fr.cmp(">=", l, r, s)
	default:
		ft.unsupported("binary operator %s in %s", x.Op, fr.fn)
		t = ft.fresh("undef", g.reg.SortOf(x.Type()))
	}
	c := ft.fresh("b_"+x.Name(), g.reg.SortOf(x.Type()))
	ft.fact("(= " + c + " " + t + ")")
	fr.vals[x] = Val{T: c, Ty: x.Type()}
}

func (fr *frame) cmp(op, l, r, s string) string {
	if s == "Str" {
		// lexicographic order on strings: an uninterpreted strict order (no contract here depends on its properties)
		g := fr.ft.g
		if !g.zeroFns["strlt"] {
			g.zeroFns["strlt"] = true
			g.reg.decls = append(g.reg.decls, "(declare-fun strlt (Str Str) Bool)")
		}
		switch op {
		case "<":
			return "(strlt " + l + " " + r + ")"
		case ">":
			return "(strlt " + r + " " + l + ")"
		case "<=":
			return "(not (strlt " + r + " " + l + "))"
		case ">=":
			return "(not (strlt " + l + " " + r + "))"
		}
	}
	if s != "Int" {
		fr.ft.unsupported("ordered comparison on sort %s in %s", s, fr.fn)
		return "false"
	}
	return "(" + op + " " + l + " " + r + ")"
}

func isNilConst(v ssa.Value) bool {
	c, ok := v.(*ssa.Const)
	return ok && c.Value == nil
}

func (fr *frame) equal(l, r string, lt, rt types.Type, x *ssa.BinOp) string {
	g := fr.ft.g
	s := g.reg.SortOf(lt)
	if isNilConst(x.Y) || isNilConst(x.X) {
		other := l
		if isNilConst(x.X) {
			other = r
		}
		switch {
		case s == "Iface":
			return "(= (itag " + other + ") 0)"
		case s == "Int":
			return "(= " + other + " 0)"
		}
		if si, ok := g.reg.seqs[s]; ok {
			return "(" + si.IsNil + " " + other + ")"
		}
	}
	if s == "Str" {
		// Go string equality is content equality (= on Str); plant the witness term so that
		// "different strings differ in length or at some index" can be used
		fr.ft.fact("(" + g.hintFn("Int") + " (sdiff " + l + " " + r + "))")
	}
	return "(= " + l + " " + r + ")"
}

func (fr *frame) convert(x *ssa.Convert, st *State) {
	ft := fr.ft
	g := ft.g
	v := fr.asValue(fr.val(x.X), st)
	from, to := g.reg.SortOf(x.X.Type()), g.reg.SortOf(x.Type())
	switch {
	case from == "Int" && to == "Int":
		tb, _ := x.Type().Underlying().(*types.Basic)
		fb, _ := x.X.Type().Underlying().(*types.Basic)
		t := v
		if tb != nil && fb != nil {
			flo, fhi, _ := intRange(fb)
			tlo, thi, ok := intRange(tb)
			_ = flo
			_ = fhi
			if ok {
				if tb.Info()&types.IsUnsigned != 0 {
					t = ft.wrap(v, x.Type())
				} else if tb.Kind() == types.Int || tb.Kind() == types.Int64 {
					// uint64 -> int64 may wrap to negative
					if fb.Kind() == types.Uint64 || fb.Kind() == types.Uint || fb.Kind() == types.Uintptr {
						t = "(ite (<= " + v + " " + thi + ") " + v + " (- " + v + " 18446744073709551616))"
					}
				} else {
					_ = tlo
					ft.unsupported("conversion to %s", tb)
				}
			}
		}
		fr.vals[x] = Val{T: t, Ty: x.Type()}
	case from == to && (from == "Str" || from == "Bytes"):
		fr.vals[x] = Val{T: v, Ty: x.Type()}
	case from == "Str" && to == "Bytes":
		fr.vals[x] = Val{T: "(tobytes " + v + ")", Ty: x.Type()}
	case from == "Bytes" && to == "Str":
		fr.vals[x] = Val{T: "(tostring " + v + ")", Ty: x.Type()}
	default:
		ft.unsupported("conversion %s -> %s in %s", x.X.Type(), x.Type(), fr.fn)
		fr.vals[x] = Val{T: ft.fresh("undef", to), Ty: x.Type()}
	}
}

func (fr *frame) slice(x *ssa.Slice, st *State, reach string) {
	ft := fr.ft
	g := ft.g
	base := fr.val(x.X)
	if al, ok := x.X.(*ssa.Alloc); ok && al.Comment == "makeslice" {
		// make([]T, constant): go/ssa allocates an array and slices it; model it as a local mutable buffer
		at := al.Type().(*types.Pointer).Elem().Underlying().(*types.Array)
		n := at.Len()
		if x.High != nil {
			if c, ok := x.High.(*ssa.Const); ok {
				n = c.Int64()
			}
		}
		ss := g.reg.SortOf(x.Type())
		if g.reg.seqs[ss] != nil {
			ref := fr.newRef(st)
			hs := "(Array Int " + ss + ")"
			h := ft.stateGet(st, "B|"+ss, hs)
			nh := ft.fresh("B", hs)
			ft.fact("(= " + nh + " (store " + h + " " + ref + " " + g.zeros(ss, fmt.Sprint(n), g.zero(at.Elem())) + "))")
			ft.stateSet(fr, st, "B|"+ss, hs, nh)
			fr.vals[x] = Val{Ty: x.Type(), Buf: &Buf{Ref: ref, Sort: ss, Root: x}}
			return
		}
	}
	if pt, ok := x.X.Type().Underlying().(*types.Pointer); ok {
		// slicing a pointer to array: materialise the literal sequence
		at := pt.Elem().Underlying().(*types.Array)
		lo64, hi64 := int64(0), at.Len()
		if x.Low != nil {
			c, ok := x.Low.(*ssa.Const)
			if !ok {
				ft.unsupported("non-constant slice of array in %s", fr.fn)
			} else {
				lo64 = c.Int64()
			}
		}
		if x.High != nil {
			c, ok := x.High.(*ssa.Const)
			if !ok {
				ft.unsupported("non-constant slice of array in %s", fr.fn)
			} else {
				hi64 = c.Int64()
			}
		}
		pl := fr.placeOf(base, pt.Elem())
		arr := ft.load(pl, st)
		ss := g.reg.SortOf(x.Type())
		var elems []string
		for i := lo64; i < hi64; i++ {
			elems = append(elems, fmt.Sprintf("(select %s %d)", arr, i))
		}
		c := ft.fresh("sl_"+x.Name(), ss)
		ft.fact("(= " + c + " " + g.seqLit(ss, elems) + ")")
		fr.vals[x] = Val{T: c, Ty: x.Type()}
		return
	}
	ss := g.reg.SortOf(x.X.Type())
	si := g.reg.seqs[ss]
	if si == nil {
		ft.unsupported("slice of %s", x.X.Type())
		return
	}
	lo := "0"
	if x.Low != nil {
		lo = fr.asValue(fr.val(x.Low), st)
	}
	if base.Buf != nil {
		blen := fr.bufLen(base.Buf, st)
		hi := blen
		if x.High != nil {
			hi = fr.asValue(fr.val(x.High), st)
		}
		ft.addObl(fr, "slice", fr.tag, reach, fmt.Sprintf("(and (<= 0 %s) (<= %s %s) (<= %s %s))", lo, lo, hi, hi, blen), "slice bounds", nil, nil)
		nb := *base.Buf
		if base.Buf.Lo != "" {
			nb.Lo = "(+ " + base.Buf.Lo + " " + lo + ")"
			nb.Hi = "(+ " + base.Buf.Lo + " " + hi + ")"
		} else {
			nb.Lo, nb.Hi = lo, hi
		}
		fr.vals[x] = Val{Ty: x.Type(), Buf: &nb}
		return
	}
	v := fr.asValue(base, st)
	hi := "(" + si.Len + " " + v + ")"
	if x.High != nil {
		hi = fr.asValue(fr.val(x.High), st)
	}
	// NB: Go allows hi up to cap for slices; we require hi <= len (stricter, sound for no-panic only if cap==len is not relied on)
	ft.addObl(fr, "slice", fr.tag, reach, fmt.Sprintf("(and (<= 0 %s) (<= %s %s) (<= %s (%s %s)))", lo, lo, hi, hi, si.Len, v), "slice bounds", nil, nil)
	c := ft.fresh("sl_"+x.Name(), ss)
	ft.fact("(= " + c + " (" + si.Sub + " " + v + " " + lo + " " + hi + "))")
	if _, isStr := x.X.Type().Underlying().(*types.Basic); !isStr {
		ft.fact("(=> (not (" + si.IsNil + " " + v + ")) (not (" + si.IsNil + " " + c + ")))")
	}
	fr.vals[x] = Val{T: c, Ty: x.Type()}
}

// ---------------------------------------------------------------------------
// maps: a Go map is a reference to a cell (dom: Array K Bool, val: Array K V)

func (fr *frame) mapSorts(mt *types.Map) (ks, vs, cell string) { return fr.ft.g.mapSorts(mt) }

func (g *Gen) mapSorts(mt *types.Map) (ks, vs, cell string) {
	ks, vs = g.reg.SortOf(mt.Key()), g.reg.SortOf(mt.Elem())
	cell = "Map_" + mangle(ks) + "_" + mangle(vs)
	if !g.reg.seen[cell] {
		g.reg.seen[cell] = true
		g.reg.decls = append(g.reg.decls, fmt.Sprintf("(declare-datatypes ((%s 0)) (((mk_%s (%s.dom (Array %s Bool)) (%s.val (Array %s %s)) (%s.card Int)))))", cell, cell, cell, ks, cell, ks, vs, cell))
	}
	return
}

func (fr *frame) makeMap(x *ssa.MakeMap, st *State) {
	ft := fr.ft
	mt := x.Type().Underlying().(*types.Map)
	ks, vs, cell := fr.mapSorts(mt)
	ref := fr.newRef(st)
	hs := "(Array Int " + cell + ")"
	h := ft.stateGet(st, "M|"+cell, hs)
	nh := ft.fresh("m", hs)
	empty := fmt.Sprintf("(mk_%s ((as const (Array %s Bool)) false) ((as const (Array %s %s)) %s) 0)", cell, ks, ks, vs, ft.g.zero(mt.Elem()))
	ft.fact("(= " + nh + " (store " + h + " " + ref + " " + empty + "))")
	ft.pendingAlloc = x.Block()
	ft.stateSet(fr, st, "M|"+cell, hs, nh)
	fr.vals[x] = Val{T: ref, Ty: x.Type()}
}

func (fr *frame) mapUpdate(x *ssa.MapUpdate, st *State, reach string) {
	ft := fr.ft
	mt := x.Map.Type().Underlying().(*types.Map)
	_, _, cell := fr.mapSorts(mt)
	m := fr.asValue(fr.val(x.Map), st)
	k := fr.asValue(fr.val(x.Key), st)
	v := fr.asValue(fr.val(x.Value), st)
	ft.addObl(fr, "nil", fr.tag+"mapupdate", reach, "(not (= "+m+" 0))", "assignment to nil map", nil, nil)
	hs := "(Array Int " + cell + ")"
	h := ft.stateGet(st, "M|"+cell, hs)
	cur := "(select " + h + " " + m + ")"
	nc := fmt.Sprintf("(mk_%s (store (%s.dom %s) %s true) (store (%s.val %s) %s %s) (ite (select (%s.dom %s) %s) (%s.card %s) (+ 1 (%s.card %s))))", cell, cell, cur, k, cell, cur, k, v, cell, cur, k, cell, cur, cell, cur)
	nh := ft.fresh("m", hs)
	ft.fact("(= " + nh + " (store " + h + " " + m + " " + nc + "))")
	if mk, ok := x.Map.(*ssa.MakeMap); ok {
		// a map created by this function (or an inlined callee): the written cell did not exist at function entry
		ft.pendingAlloc = mk.Block()
	}
	ft.stateSet(fr, st, "M|"+cell, hs, nh)
}

func (fr *frame) lookup(x *ssa.Lookup, st *State, reach string) {
	ft := fr.ft
	mt, ok := x.X.Type().Underlying().(*types.Map)
	if !ok {
		// string index
		s := fr.asValue(fr.val(x.X), st)
		idx := fr.asValue(fr.val(x.Index), st)
		ft.addObl(fr, "idx", fr.tag, reach, fmt.Sprintf("(and (<= 0 %s) (< %s (len_Str %s)))", idx, idx, s), "string index", nil, nil)
		fr.vals[x] = Val{T: "(at_Str " + s + " " + idx + ")", Ty: x.Type()}
		return
	}
	_, _, cell := fr.mapSorts(mt)
	m := fr.asValue(fr.val(x.X), st)
	k := fr.asValue(fr.val(x.Index), st)
	h := ft.stateGet(st, "M|"+cell, "(Array Int "+cell+")")
	cur := "(select " + h + " " + m + ")"
	has := fmt.Sprintf("(and (not (= %s 0)) (select (%s.dom %s) %s))", m, cell, cur, k)
	val := fmt.Sprintf("(ite %s (select (%s.val %s) %s) %s)", has, cell, cur, k, ft.g.zero(mt.Elem()))
	if x.CommaOk {
		fr.vals[x] = Val{Ty: x.Type(), Tuple: []Val{{T: val, Ty: mt.Elem()}, {T: has, Ty: types.Typ[types.Bool]}}}
	} else {
		fr.vals[x] = Val{T: val, Ty: x.Type()}
	}
}

// rangeNext: iteration over a map visits keys of a ghost "remaining" set in arbitrary order.
func (fr *frame) rangeNext(in ssa.Instruction, st *State, reach string) {
	ft := fr.ft
	switch x := in.(type) {
	case *ssa.Range:
		mt, ok := x.X.Type().Underlying().(*types.Map)
		if !ok {
			ft.unsupported("range over string in %s", fr.fn)
			fr.vals[x] = Val{T: "0", Ty: x.Type()}
			return
		}
		ks, _, cell := fr.mapSorts(mt)
		m := fr.asValue(fr.val(x.X), st)
		// iterator cell: remaining set, stored in state var keyed by the Range instruction
		h := ft.stateGet(st, "M|"+cell, "(Array Int "+cell+")")
		name := "iter|" + fr.tag + x.Name() + "|" + fr.fn.Name()
		rs := "(Array " + ks + " Bool)"
		rem := ft.fresh("rem", rs)
		ft.fact(fmt.Sprintf("(= %s (ite (= %s 0) ((as const %s) false) (%s.dom (select %s %s))))", rem, m, rs, cell, h, m))
		ft.stateSet(fr, st, name, rs, rem)
		fr.vals[x] = Val{T: m, Ty: x.Type(), DynT: x.X.Type()}
		fr.iterName()[x] = name
	case *ssa.Next:
		if x.IsString {
			ft.unsupported("range over string in %s", fr.fn)
			return
		}
		rng, _ := x.Iter.(*ssa.Range)
		if rng == nil {
			ft.unsupported("Next on non-range iterator")
			return
		}
		mt := rng.X.Type().Underlying().(*types.Map)
		ks, _, cell := fr.mapSorts(mt)
		name := fr.iterName()[rng]
		rs := "(Array " + ks + " Bool)"
		rem := ft.stateGet(st, name, rs)
		m := fr.val(rng).T
		h := ft.stateGet(st, "M|"+cell, "(Array Int "+cell+")")
		k := ft.fresh("rk", ks)
		ok := ft.fresh("rok", "Bool")
		// ok iff some key remains; the key is an arbitrary remaining one
		ft.fact(fmt.Sprintf("(=> %s (select %s %s))", ok, rem, k))
		ft.fact(fmt.Sprintf("(=> (not %s) (forall ((q %s)) (not (select %s q))))", ok, ks, rem))
		nrem := ft.fresh("rem", rs)
		ft.fact(fmt.Sprintf("(= %s (ite %s (store %s %s false) %s))", nrem, ok, rem, k, rem))
		ft.stateSet(fr, st, name, rs, nrem)
		v := fmt.Sprintf("(select (%s.val (select %s %s)) %s)", cell, h, m, k)
		tt := x.Type().(*types.Tuple)
		fr.vals[x] = Val{Ty: x.Type(), Tuple: []Val{{T: ok, Ty: types.Typ[types.Bool]}, {T: k, Ty: tt.At(1).Type()}, {T: v, Ty: tt.At(2).Type()}}}
	}
}

var iterNames = map[*frame]map[*ssa.Range]string{}

func (fr *frame) iterName() map[*ssa.Range]string {
	m := iterNames[fr]
	if m == nil {
		m = map[*ssa.Range]string{}
		iterNames[fr] = m
	}
	return m
}

func typeString(t types.Type) string { return strings.ReplaceAll(t.String(), repoPrefix+"/", "") }
