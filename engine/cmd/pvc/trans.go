package main

// SSA -> passive-form verification conditions.

import (
	"go/constant"
	"sync"
	"fmt"
	"go/token"
	"go/types"
	"sort"
	"strings"

	"golang.org/x/tools/go/ssa"
)

type State struct {
	vars map[string]string
}

func (s *State) clone() *State {
	n := &State{vars: make(map[string]string, len(s.vars))}
	for k, v := range s.vars {
		n.vars[k] = v
	}
	return n
}

type PathEl struct {
	SI    *StructInfo
	Field int
	Idx   string // array index (when SI == nil)
	ASort string // array sort
}

type Place struct {
	Var    string // state variable holding the root cell array ("" for direct global)
	Sort   string // sort of the root cell
	Ref    string // reference term (index into Var) ; "" for globals
	Global string // state var of a package-level variable
	Path   []PathEl
	Ty     types.Type // type of the addressed location
	NonNil bool
	// element of a sequence value / buffer
	Seq *Val
	Idx string
	AllocBlk *ssa.BasicBlock // block of the Alloc that created the root cell (nil: pre-existing or unknown)
}

type Buf struct {
	Ref    string // ref into B|sort
	Sort   string // sequence sort
	Lo, Hi string // view window ("" = whole)
	Root   ssa.Value
}

type Closure struct {
	Fn   *ssa.Function
	Bind []Val
}

type Val struct {
	T     string
	Ty    types.Type
	P     *Place
	Tuple []Val
	Buf   *Buf
	Clo   *Closure
	DynT  types.Type
}

type Obl struct {
	Name   string
	Kind   string
	Fn     string
	NFacts int
	Guard  string
	Goal   string
	Hints  []string
	Tags   []string
	Src    string
	Pos    string
	Extra  []string // extra assumptions local to this obligation
	File   string   // contract file of the clause (lemma visibility); empty = the function's contract file
}

type FT struct {
	mu      sync.Mutex
	g       *Gen
	name    string
	axUpTo  *Axiom
	lemma   *Axiom
	fn      *ssa.Function
	c       *Contract
	decls   []string
	facts   []string
	obls    []*Obl
	nconst  int
	ssorts  map[string]string // state var -> sort
	unsupp  []string
	dropped []string // callee postconditions that could not be interpreted at a call site and were not assumed
	topLoops int            // number of loops of the function under proof itself
	adopted  map[string]int // loop of an inlined frame -> invariant group of the contract it adopted
	assumed map[string]bool // external contracts used
	havoced map[string]bool // external calls with no spec
	inlined map[string]bool
	modular map[string]bool
	kindCnt map[string]int
	loopMod map[*ssa.BasicBlock]map[string]bool // pass-1 result
	frameOK map[*ssa.BasicBlock]map[string]int // pass-1 result: loops x heaps that only get cells allocated inside the loop written
	pass    int
	written map[*ssa.BasicBlock]map[string]bool
	oldWrite map[*ssa.BasicBlock]map[string]bool        // writes that may hit cells allocated outside the writing loop
	freshIn  map[*ssa.BasicBlock]map[string][]*ssa.BasicBlock // writes to cells allocated in the given blocks
	stack   []*ssa.Function
	mutSite []site
	escSite []site
	init0   map[string]string
	entry   *State
	axUsed  map[string]bool
	finfo   []factInfo
	covers  []cover
	pgMods  map[*ssa.Function]map[string]bool // pass-1 result: state written by the callback of a query.Paginate call
	pgCount map[*ssa.Function]int              // ordinal of Paginate calls per function under translation
	pendingAlloc *ssa.BasicBlock // allocation site of the cell written by the next stateSet (nil = unknown / pre-existing)
	axSkipped map[string]string
}

// cover: a program point that must be reachable under the assumed contracts (guards against vacuous proofs)
type cover struct {
	Name   string
	Guard  string
	NFacts int
}

type site struct {
	root ssa.Value
	blk  *ssa.BasicBlock
	idx  int
}

type frame struct {
	atCall bool // invEnv is being built for a call site, not a loop header
	cloOverride *Closure // closure to bind when inlining a callback that is not the value of the current call instruction
	ft      *FT
	fn      *ssa.Function
	c       *Contract
	vals    map[ssa.Value]Val
	depth   int
	rets    []retPoint
	curBlk  *ssa.BasicBlock
	curIdx  int
	reach   map[*ssa.BasicBlock]string
	out     map[*ssa.BasicBlock]*State
	edge    map[[2]*ssa.BasicBlock]string
	defers  []deferred
	names   map[string][]nameRef
	loopOrd map[*ssa.BasicBlock]int
	tag     string // inline tag for obligation names
	phiIn   map[*ssa.Phi]map[*ssa.BasicBlock]Val
	loopFrames map[*ssa.BasicBlock][]loopFrame
	pendingLoopCover []*ssa.BasicBlock
	top     bool
}

type loopFrame struct {
	name, sort, old, oldNext string
}

type nameRef struct {
	v      ssa.Value
	isAddr bool
	blk    *ssa.BasicBlock
}

type deferred struct {
	call  *ssa.Defer
	guard string
}

type retPoint struct {
	guard string
	vals  []Val
	st    *State
}

func (ft *FT) fresh(prefix, sort string) string {
	ft.nconst++
	n := fmt.Sprintf("%s!%d", prefix, ft.nconst)
	n = "|" + strings.ReplaceAll(n, "|", "_") + "|"
	ft.decls = append(ft.decls, fmt.Sprintf("(declare-const %s %s)", n, sort))
	return n
}

func (ft *FT) fact(t string) { ft.facts = append(ft.facts, t) }

func (ft *FT) unsupported(f string, a ...interface{}) {
	m := fmt.Sprintf(f, a...)
	for _, u := range ft.unsupp {
		if u == m {
			return
		}
	}
	ft.unsupp = append(ft.unsupp, m)
}

// stateGet returns the current term of a state variable, creating the initial constant lazily.
func (ft *FT) stateGet(st *State, name, sort string) string {
	if st != nil {
		if v, ok := st.vars[name]; ok {
			return v
		}
	}
	if v, ok := ft.init0[name]; ok {
		return v
	}
	ft.ssorts[name] = sort
	c := "|" + strings.ReplaceAll(name, "|", "_") + "@0|"
	ft.decls = append(ft.decls, fmt.Sprintf("(declare-const %s %s)", c, sort))
	ft.init0[name] = c
	if strings.HasPrefix(name, "G|") {
		ft.globalInit(name, c, sort)
	}
	return c
}

func (ft *FT) stateSet(fr *frame, st *State, name, sort, term string) {
	ft.ssorts[name] = sort
	if _, ok := ft.init0[name]; !ok {
		ft.stateGet(nil, name, sort)
	}
	st.vars[name] = term
	if fr != nil && fr.curBlk != nil {
		ft.noteWrite(fr.curBlk, name)
		if strings.HasPrefix(name, "H|") || strings.HasPrefix(name, "M|") {
			ft.noteHeapWrite(fr.curBlk, name, ft.pendingAlloc)
		}
	}
	ft.pendingAlloc = nil
}

// noteHeapWrite records where the written cell was allocated (nil = not by an Alloc of this translation).
func (ft *FT) noteHeapWrite(b *ssa.BasicBlock, name string, allocBlk *ssa.BasicBlock) {
	if b == nil {
		return
	}
	if allocBlk == nil {
		if ft.oldWrite[b] == nil {
			ft.oldWrite[b] = map[string]bool{}
		}
		ft.oldWrite[b][name] = true
		return
	}
	if ft.freshIn[b] == nil {
		ft.freshIn[b] = map[string][]*ssa.BasicBlock{}
	}
	ft.freshIn[b][name] = append(ft.freshIn[b][name], allocBlk)
}

func (ft *FT) anyOldWrite(name string) bool {
	for _, m := range ft.oldWrite {
		if m[name] {
			return true
		}
	}
	return false
}

func (ft *FT) noteWrite(b *ssa.BasicBlock, name string) {
	m := ft.written[b]
	if m == nil {
		m = map[string]bool{}
		ft.written[b] = m
	}
	m[name] = true
}

func (ft *FT) addObl(fr *frame, kind, detail, guard, goal string, src string, tags []string, hints []string) *Obl {
	base := ft.name + "#" + kind
	if detail != "" {
		base += "(" + detail + ")"
	}
	ft.kindCnt[base]++
	name := fmt.Sprintf("%s/%d", base, ft.kindCnt[base])
	pos := ""
	if fr != nil && fr.curBlk != nil && fr.curIdx < len(fr.curBlk.Instrs) {
		if p := fr.curBlk.Instrs[fr.curIdx].Pos(); p.IsValid() {
			pos = ft.g.prog.Fset.Position(p).String()
		}
	}
	o := &Obl{Name: name, Kind: kind, Fn: ft.name, NFacts: len(ft.facts), Guard: guard, Goal: goal, Src: src, Tags: tags, Hints: hints, Pos: pos}
	ft.obls = append(ft.obls, o)
	// assert-then-assume (not for the frame-reporting kinds: assuming "this call is unreachable" would hide everything after it)
	switch kind {
	case "extcall", "nondet", "global-read", "global-write":
	default:
		ft.fact("(=> " + guard + " " + goal + ")")
	}
	return o
}

// ---------------------------------------------------------------------------

func isRepoFunc(fn *ssa.Function) bool {
	return fn != nil && fn.Pkg != nil && (strings.HasPrefix(fn.Pkg.Pkg.Path(), repoPrefix) || verifiedDeps[fn.Pkg.Pkg.Path()])
}

// TranslateFunction produces the obligations for fn against its contract.
func (g *Gen) TranslateFunction(fn *ssa.Function, c *Contract) *FT {
	var loopMod map[*ssa.BasicBlock]map[string]bool
	var pgMods map[*ssa.Function]map[string]bool
	frameOK := map[*ssa.BasicBlock]map[string]int{}
	var ft *FT
	for pass := 1; pass <= 2; pass++ {
		ft = &FT{g: g, fn: fn, name: ftName(fn, c), c: c, ssorts: map[string]string{}, assumed: map[string]bool{}, havoced: map[string]bool{}, inlined: map[string]bool{},
			modular: map[string]bool{}, kindCnt: map[string]int{}, loopMod: loopMod, pass: pass, written: map[*ssa.BasicBlock]map[string]bool{}, init0: map[string]string{}, axUsed: map[string]bool{},
			oldWrite: map[*ssa.BasicBlock]map[string]bool{}, freshIn: map[*ssa.BasicBlock]map[string][]*ssa.BasicBlock{}, frameOK: frameOK, pgMods: pgMods, pgCount: map[*ssa.Function]int{}}
		ft.run()
		if pass == 1 {
			loopMod = ft.computeLoopMods()
			frameOK = ft.frameOK
			pgMods = ft.computePgMods()
		}
	}
	return ft
}

func (ft *FT) computeLoopMods() map[*ssa.BasicBlock]map[string]bool {
	// for each function that was translated, compute loops and union of writes
	res := map[*ssa.BasicBlock]map[string]bool{}
	fns := map[*ssa.Function]bool{}
	for b := range ft.written {
		fns[b.Parent()] = true
	}
	for fn := range fns {
		loops := findLoops(fn)
		for h, body := range loops {
			m := map[string]bool{}
			for b := range body {
				for k := range ft.written[b] {
					m[k] = true
				}
			}
			res[h] = m
			// heaps whose writes inside the loop only touch cells allocated inside the loop
			// 1: only cells allocated inside the loop are written; 2: only cells allocated by this function (after its
			// entry) are written, some of them before the loop
			fo := map[string]int{}
			for k := range m {
				if !strings.HasPrefix(k, "H|") && !strings.HasPrefix(k, "M|") {
					continue
				}
				mode := 1
				for b := range body {
					if ft.oldWrite[b][k] {
						mode = 0
						break
					}
					for _, ab := range ft.freshIn[b][k] {
						if !body[ab] {
							mode = 2
						}
					}
				}
				if mode == 2 && !strings.HasPrefix(k, "M|") {
					mode = 0 // kept conservative for pointer heaps: allocation sites of inlined callees are not tracked precisely
				}
				fo[k] = mode
			}
			ft.frameOK[h] = fo
		}
	}
	return res
}

// findLoops returns natural loops: header -> set of blocks.
func findLoops(fn *ssa.Function) map[*ssa.BasicBlock]map[*ssa.BasicBlock]bool {
	loops := map[*ssa.BasicBlock]map[*ssa.BasicBlock]bool{}
	for _, b := range fn.Blocks {
		for _, s := range b.Succs {
			if s.Dominates(b) { // back edge b -> s
				body := loops[s]
				if body == nil {
					body = map[*ssa.BasicBlock]bool{s: true}
					loops[s] = body
				}
				// walk predecessors from b until s
				var stack []*ssa.BasicBlock
				if !body[b] {
					body[b] = true
					stack = append(stack, b)
				}
				for len(stack) > 0 {
					x := stack[len(stack)-1]
					stack = stack[:len(stack)-1]
					for _, p := range x.Preds {
						if !body[p] {
							body[p] = true
							stack = append(stack, p)
						}
					}
				}
			}
		}
	}
	return loops
}

func rpo(fn *ssa.Function) []*ssa.BasicBlock {
	seen := map[*ssa.BasicBlock]bool{}
	var post []*ssa.BasicBlock
	var dfs func(b *ssa.BasicBlock)
	dfs = func(b *ssa.BasicBlock) {
		seen[b] = true
		for _, s := range b.Succs {
			if !seen[s] {
				dfs(s)
			}
		}
		post = append(post, b)
	}
	if len(fn.Blocks) > 0 {
		dfs(fn.Blocks[0])
	}
	for i, j := 0, len(post)-1; i < j; i, j = i+1, j-1 {
		post[i], post[j] = post[j], post[i]
	}
	return post
}

func (ft *FT) run() {
	defer func() {
		if r := recover(); r != nil {
			if ee, ok := r.(evalErr); ok {
				ft.unsupported("contract error: %s", ee.msg)
				return
			}
			panic(r)
		}
	}()
	fn := ft.fn
	st := &State{vars: map[string]string{}}
	ft.entry = st.clone()
	ft.stateGet(st, "$next", "Int")
	fr := &frame{ft: ft, fn: fn, c: ft.c, vals: map[ssa.Value]Val{}, top: true}
	// parameters
	for _, p := range fn.Params {
		v := ft.inputVal("p_"+p.Name(), p.Type(), st)
		if ft.c != nil && ft.c.SpecDyn != nil {
			if _, isIface := p.Type().Underlying().(*types.Interface); isIface {
				// specialised verification: this interface parameter has the given dynamic type
				v.DynT = ft.c.SpecDyn
				ft.fact(fmt.Sprintf("(= (itag %s) %d)", v.T, ft.g.reg.Tag(ft.c.SpecDyn)))
				nx := ft.stateGet(ft.entry, "$next", "Int")
				ft.fact(fmt.Sprintf("(and (<= 0 (ipl %s)) (< (ipl %s) %s))", v.T, v.T, nx))
			}
		}
		fr.vals[p] = v
	}
	for _, fv := range fn.FreeVars {
		v := ft.inputVal("fv_"+fv.Name(), fv.Type(), st)
		fr.vals[fv] = v
	}
	// preconditions
	env := fr.specEnv(st, st, nil)
	if ft.c != nil {
		for _, cl := range ft.c.Requires {
			t, err := env.EvalBool(cl.E)
			if err != nil {
				ft.unsupported("requires %q: %v", cl.Src, err)
				continue
			}
			ft.fact(t)
		}
	}
	entrySt := st.clone()
	ft.entry = entrySt
	ft.runFrame(fr, st, "true")
	// merge returns
	if len(fr.rets) == 0 {
		return
	}
	exitSt, results, anyRet := ft.mergeReturns(fr)
	ft.covers = append(ft.covers, cover{ft.name + "#cover(return)", anyRet, len(ft.facts)})
	if n := len(results); n > 0 && ft.g.reg.SortOf(results[n-1].Ty) == "Iface" && types.Identical(results[n-1].Ty, types.Universe.Lookup("error").Type()) {
		// the success path must be reachable too (unless the contract says the function always fails)
		ft.covers = append(ft.covers, cover{ft.name + "#cover(return nil error)", "(and " + anyRet + " (= (itag " + results[n-1].T + ") 0))", len(ft.facts)})
	}
	if ft.c != nil {
		penv := fr.specEnv(exitSt, entrySt, results)
		for i, cl := range ft.c.Covers {
			t, err := penv.EvalBool(cl.E)
			if err != nil {
				ft.unsupported("cover %q: %v", cl.Src, err)
				continue
			}
			label := fmt.Sprint(i + 1)
			if cl.Name != "" {
				label = cl.Name
			}
			ft.covers = append(ft.covers, cover{ft.name + "#cover(" + label + ")", "(and " + anyRet + " " + t + ")", len(ft.facts)})
		}
		for i, cl := range ft.c.Ensures {
			var hints []string
			penv.hints = &hints
			t, err := penv.EvalBool(cl.E)
			if err != nil {
				ft.unsupported("ensures %q: %v", cl.Src, err)
				continue
			}
			fr.curBlk = nil
			label := fmt.Sprint(i + 1)
			if cl.Name != "" {
				label = cl.Name
			}
			ft.addObl(fr, "post", label, anyRet, t, cl.Src, cl.Tags, hints)
		}
		if ft.c.HasAssign {
			ft.frameObligations(fr, entrySt, exitSt, anyRet)
		}
	}
}

// frameObligations: every state variable not listed in assigns is unchanged.
func (ft *FT) frameObligations(fr *frame, entry, exit *State, guard string) {
	allowed := map[string]bool{}
	cellOK := map[string][]string{} // heap var -> references whose cell may change ("assigns *p")
	env := fr.specEnv(entry, entry, nil)
	for _, a := range ft.c.Assigns {
		if strings.HasPrefix(a, "*") {
			pv, ok := env.vars[strings.TrimSpace(a[1:])]
			if !ok || pv.Ty == nil || pv.Ty.Go == nil {
				ft.unsupported("assigns %s: unknown parameter", a)
				continue
			}
			var elem types.Type
			ref := pv.T
			if pt, ok := pv.Ty.Go.Underlying().(*types.Pointer); ok {
				elem = pt.Elem()
			} else if ft.c.SpecDyn != nil {
				if pt, ok := ft.c.SpecDyn.Underlying().(*types.Pointer); ok {
					elem = pt.Elem()
					ref = "(ipl " + pv.T + ")"
				}
			}
			if elem == nil {
				ft.unsupported("assigns %s: not a pointer", a)
				continue
			}
			hv := "H|" + ft.g.reg.SortOf(elem)
			cellOK[hv] = append(cellOK[hv], ref)
			continue
		}
		allowed[ft.assignVar(a, fr)] = true
	}
	var names []string
	for k := range exit.vars {
		names = append(names, k)
	}
	sort.Strings(names)
	for _, k := range names {
		if k == "$next" || strings.HasPrefix(k, "B|") {
			continue
		}
		if allowed[k] {
			continue
		}
		pre := ft.stateGet(entry, k, ft.ssorts[k])
		post := exit.vars[k]
		if pre == post {
			continue
		}
		if strings.HasPrefix(k, "M|") && !ft.anyOldWrite(k) {
			// every write to this map heap went through a map created by this very translation (MakeMap value used
			// directly): no cell that existed at entry can have changed
			continue
		}
		if strings.HasPrefix(k, "H|") || strings.HasPrefix(k, "M|") {
			// fresh cells (and fresh Go maps) may be written: only pre-existing cells must be unchanged
			nx := ft.stateGet(entry, "$next", "Int")
			except := ""
			for _, r := range cellOK[k] {
				except += " (not (= r " + r + "))"
			}
			ft.addObl(fr, "assigns", k, guard, fmt.Sprintf("(forall ((r Int)) (=> (and (< r %s)%s) (= (select %s r) (select %s r))))", nx, except, post, pre), "assigns", nil, nil)
			continue
		}
		ft.addObl(fr, "assigns", k, guard, "(= "+post+" "+pre+")", "assigns", nil, nil)
	}
}

func (ft *FT) assignVar(a string, fr *frame) string {
	a = strings.TrimSpace(a)
	if _, ok := ft.g.db.Ghosts[a]; ok {
		return "ghost|" + a
	}
	if strings.HasPrefix(a, "H(") && strings.HasSuffix(a, ")") {
		file := ""
		var pkg *types.Package
		if fr.c != nil {
			file = fr.c.File
		}
		if fr.fn.Pkg != nil {
			pkg = fr.fn.Pkg.Pkg
		}
		ty := ft.g.resolveType(a[2:len(a)-1], file, pkg)
		return "H|" + ft.g.reg.STSort(ty)
	}
	return a
}

func (ft *FT) mergeReturns(fr *frame) (*State, []Val, string) {
	var guards []string
	for _, r := range fr.rets {
		guards = append(guards, r.guard)
	}
	any := ft.fresh("ret", "Bool")
	ft.fact("(= " + any + " " + orOf(guards) + ")")
	// results
	var results []Val
	n := len(fr.rets[0].vals)
	for i := 0; i < n; i++ {
		ty := fr.rets[0].vals[i].Ty
		if len(fr.rets) == 1 {
			results = append(results, fr.rets[0].vals[i])
			continue
		}
		same := true
		for _, r := range fr.rets[1:] {
			if r.vals[i].T != fr.rets[0].vals[i].T {
				same = false
			}
		}
		if same {
			results = append(results, fr.rets[0].vals[i])
			continue
		}
		c := ft.fresh("res", ft.g.reg.SortOf(ty))
		for _, r := range fr.rets {
			ft.fact("(=> " + r.guard + " (= " + c + " " + r.vals[i].T + "))")
		}
		results = append(results, Val{T: c, Ty: ty})
	}
	var sts []*State
	for _, r := range fr.rets {
		sts = append(sts, r.st)
	}
	st := ft.joinStates(sts, guards)
	return st, results, any
}

func orOf(xs []string) string {
	if len(xs) == 0 {
		return "false"
	}
	if len(xs) == 1 {
		return xs[0]
	}
	return "(or " + strings.Join(xs, " ") + ")"
}

func andOf(xs []string) string {
	if len(xs) == 0 {
		return "true"
	}
	if len(xs) == 1 {
		return xs[0]
	}
	return "(and " + strings.Join(xs, " ") + ")"
}

func (ft *FT) joinStates(sts []*State, guards []string) *State {
	if len(sts) == 1 {
		return sts[0].clone()
	}
	out := &State{vars: map[string]string{}}
	keys := map[string]bool{}
	for _, s := range sts {
		for k := range s.vars {
			keys[k] = true
		}
	}
	for _, k := range sortedStrs(keys) {
		sortK := ft.ssorts[k]
		first := ft.stateGet(sts[0], k, sortK)
		same := true
		for _, s := range sts[1:] {
			if ft.stateGet(s, k, sortK) != first {
				same = false
			}
		}
		if same {
			out.vars[k] = first
			continue
		}
		c := ft.fresh("j_"+mangle(k), sortK)
		for i, s := range sts {
			ft.fact("(=> " + guards[i] + " (= " + c + " " + ft.stateGet(s, k, sortK) + "))")
		}
		if k == "$next" {
			// the allocation watermark only grows (stated on the join so that it does not depend on which edge was taken)
			ft.fact("(>= " + c + " " + ft.stateGet(nil, "$next", "Int") + ")")
		}
		out.vars[k] = c
	}
	return out
}

// inputVal creates a symbolic input of the given type with its type invariants.
func (ft *FT) inputVal(name string, t types.Type, st *State) Val {
	s := ft.g.reg.SortOf(t)
	c := ft.fresh(name, s)
	ft.typeInv(c, t, st)
	return Val{T: c, Ty: t}
}

// typeInv asserts machine-range facts for a value of Go type t.
func (ft *FT) typeInv(term string, t types.Type, st *State) {
	switch u := t.Underlying().(type) {
	case *types.Basic, *types.Struct:
		ft.valueInv(term, t, 0)
		if st != nil {
			ft.closedMaps(term, t, st)
		}
	case *types.Map:
		if st != nil {
			ft.closedMaps(term, t, st)
		}
	case *types.Pointer:
		nx := ft.stateGet(ft.entry, "$next", "Int")
		ft.fact(fmt.Sprintf("(and (<= 0 %s) (< %s %s))", term, term, nx))
		// the entry heap is closed: pointers stored in the cell a parameter points to are allocated too
		es := ft.g.reg.SortOf(u.Elem())
		if si := ft.g.reg.structs[es]; si != nil {
			h := ft.stateGet(st, "H|"+es, "(Array Int "+es+")")
			for i, fty := range si.FTypes {
				if _, ok := fty.Underlying().(*types.Pointer); ok {
					f := "(" + si.Fields[i] + " (select " + h + " " + term + "))"
					ft.fact(fmt.Sprintf("(and (<= 0 %s) (< %s %s))", f, f, nx))
				}
			}
		}
	}
}

// closedMaps: the entry heap is closed also through Go maps held (directly or in a struct field) by a parameter: a pointer
// stored as a map value refers to a cell allocated before the function was entered.
func (ft *FT) closedMaps(term string, t types.Type, st *State) {
	switch u := t.Underlying().(type) {
	case *types.Map:
		if _, ok := u.Elem().Underlying().(*types.Pointer); !ok {
			return
		}
		_, _, cell := ft.g.mapSorts(u)
		h := ft.stateGet(st, "M|"+cell, "(Array Int "+cell+")")
		nx := ft.stateGet(ft.entry, "$next", "Int")
		ks := ft.g.reg.SortOf(u.Key())
		v := fmt.Sprintf("(select (%s.val (select %s %s)) k)", cell, h, term)
		ft.fact(fmt.Sprintf("(forall ((k %s)) (! (=> (select (%s.dom (select %s %s)) k) (and (<= 0 %s) (< %s %s))) :pattern (%s)))", ks, cell, h, term, v, v, nx, v))
	case *types.Struct:
		si := ft.g.reg.structs[ft.g.reg.SortOf(t)]
		if si == nil {
			return
		}
		for i, fty := range si.FTypes {
			if _, ok := fty.Underlying().(*types.Map); ok {
				ft.closedMaps("("+si.Fields[i]+" "+term+")", fty, st)
			}
		}
	}
}

func intRange(b *types.Basic) (string, string, bool) {
	switch b.Kind() {
	case types.Int, types.Int64:
		return "(- 9223372036854775808)", "9223372036854775807", true
	case types.Int32:
		return "(- 2147483648)", "2147483647", true
	case types.Int16:
		return "(- 32768)", "32767", true
	case types.Int8:
		return "(- 128)", "127", true
	case types.Uint, types.Uint64, types.Uintptr:
		return "0", "18446744073709551615", true
	case types.Uint32:
		return "0", "4294967295", true
	case types.Uint16:
		return "0", "65535", true
	case types.Uint8:
		return "0", "255", true
	}
	return "", "", false
}

// specEnv builds the environment for evaluating this frame's contract clauses.
func (fr *frame) specEnv(st, old *State, results []Val) *Env {
	ft := fr.ft
	env := &Env{ft: ft, vars: map[string]SV{}, st: st, old: old, bound: map[string]bool{}}
	if fr.c != nil {
		env.file = fr.c.File
	}
	if fr.fn.Pkg != nil {
		env.pkg = fr.fn.Pkg.Pkg
	}
	if fr.c != nil && fr.c.SpecDyn != nil {
		if fp := ft.g.filePkg(fr.c.File); fp != nil {
			env.pkg = fp // a specialised contract speaks the vocabulary of the package that states it
		}
	}
	for i, p := range fr.fn.Params {
		v := fr.vals[p]
		env.vars[p.Name()] = SV{fr.plain(v, st), goT(p.Type())}
		if fr.c != nil && i < len(fr.c.Params) {
			env.vars[fr.c.Params[i]] = env.vars[p.Name()]
		}
		env.vars[fmt.Sprintf("$%d", i)] = env.vars[p.Name()]
	}
	for _, fv := range fr.fn.FreeVars {
		v := fr.vals[fv]
		// free variables are pointers to the captured variable: expose the cell content by name
		if pt, ok := fv.Type().Underlying().(*types.Pointer); ok {
			es := ft.g.reg.SortOf(pt.Elem())
			h := ft.stateGet(st, "H|"+es, "(Array Int "+es+")")
			env.vars[fv.Name()] = SV{"(select " + h + " " + v.T + ")", goT(pt.Elem())}
		} else {
			env.vars[fv.Name()] = SV{v.T, goT(fv.Type())}
		}
	}
	if results != nil {
		sig := fr.fn.Signature
		for i, r := range results {
			sv := SV{fr.plain(r, st), goT(sig.Results().At(i).Type())}
			env.vars[fmt.Sprintf("r%d", i)] = sv
			if n := sig.Results().At(i).Name(); n != "" && n != "_" {
				env.vars[n] = sv
			}
			if fr.c != nil && i < len(fr.c.Results) {
				env.vars[fr.c.Results[i]] = sv
			}
			if i == 0 {
				env.vars["result"] = sv
			}
			if types.Identical(sig.Results().At(i).Type(), types.Universe.Lookup("error").Type()) {
				if _, ok := env.vars["err"]; !ok {
					env.vars["err"] = sv
				}
			}
		}
	}
	return env
}

// plain converts a translator value into a plain SMT term in the given state.
func (fr *frame) plain(v Val, st *State) string {
	ft := fr.ft
	if v.Buf != nil {
		cur := "(select " + ft.stateGet(st, "B|"+v.Buf.Sort, "(Array Int "+v.Buf.Sort+")") + " " + v.Buf.Ref + ")"
		if v.Buf.Lo != "" {
			si := ft.g.reg.seqs[v.Buf.Sort]
			return "(" + si.Sub + " " + cur + " " + v.Buf.Lo + " " + v.Buf.Hi + ")"
		}
		return cur
	}
	if v.P != nil {
		return ft.load(v.P, st)
	}
	if v.Clo != nil {
		return "0"
	}
	return v.T
}

func (ft *FT) load(p *Place, st *State) string {
	if p.Seq != nil {
		si := ft.g.reg.seqs[ft.g.reg.SortOf(p.Seq.Ty)]
		if p.Seq.Buf != nil {
			b := p.Seq.Buf
			cur := "(select " + ft.stateGet(st, "B|"+b.Sort, "(Array Int "+b.Sort+")") + " " + b.Ref + ")"
			idx := p.Idx
			if b.Lo != "" {
				idx = "(+ " + b.Lo + " " + idx + ")"
			}
			return "(" + ft.g.reg.seqs[b.Sort].At + " " + cur + " " + idx + ")"
		}
		return "(" + si.At + " " + p.Seq.T + " " + p.Idx + ")"
	}
	var root string
	if p.Global != "" {
		root = ft.stateGet(st, p.Global, p.Sort)
	} else {
		root = "(select " + ft.stateGet(st, p.Var, "(Array Int "+p.Sort+")") + " " + p.Ref + ")"
	}
	for _, el := range p.Path {
		if el.SI != nil {
			root = "(" + el.SI.Fields[el.Field] + " " + root + ")"
		} else {
			root = "(select " + root + " " + el.Idx + ")"
		}
	}
	return root
}

func (ft *FT) updatePath(root string, path []PathEl, v string) string {
	if len(path) == 0 {
		return v
	}
	el := path[0]
	if el.SI != nil {
		args := make([]string, len(el.SI.Fields))
		for i, f := range el.SI.Fields {
			if i == el.Field {
				args[i] = ft.updatePath("("+f+" "+root+")", path[1:], v)
			} else {
				args[i] = "(" + f + " " + root + ")"
			}
		}
		return "(" + el.SI.Ctor + " " + strings.Join(args, " ") + ")"
	}
	return "(store " + root + " " + el.Idx + " " + ft.updatePath("(select "+root+" "+el.Idx+")", path[1:], v) + ")"
}

func (fr *frame) store(p *Place, v string, st *State) {
	ft := fr.ft
	if p.Seq != nil {
		b := p.Seq.Buf
		if b == nil {
			ft.unsupported("store into a sequence that is not a local buffer (%s)", fr.fn)
			return
		}
		hv := "B|" + b.Sort
		hs := "(Array Int " + b.Sort + ")"
		h := ft.stateGet(st, hv, hs)
		idx := p.Idx
		if b.Lo != "" {
			idx = "(+ " + b.Lo + " " + idx + ")"
		}
		si := ft.g.reg.seqs[b.Sort]
		nh := ft.fresh("B", hs)
		ft.fact(fmt.Sprintf("(= %s (store %s %s (%s (select %s %s) %s %s)))", nh, h, b.Ref, si.Upd, h, b.Ref, idx, v))
		ft.stateSet(fr, st, hv, hs, nh)
		ft.mutSite = append(ft.mutSite, site{b.Root, fr.curBlk, fr.curIdx})
		return
	}
	if p.Global != "" {
		cur := ft.stateGet(st, p.Global, p.Sort)
		nv := ft.fresh("g", p.Sort)
		ft.fact("(= " + nv + " " + ft.updatePath(cur, p.Path, v) + ")")
		ft.stateSet(fr, st, p.Global, p.Sort, nv)
		return
	}
	hs := "(Array Int " + p.Sort + ")"
	h := ft.stateGet(st, p.Var, hs)
	nh := ft.fresh("h", hs)
	cell := "(select " + h + " " + p.Ref + ")"
	ft.fact("(= " + nh + " (store " + h + " " + p.Ref + " " + ft.updatePath(cell, p.Path, v) + "))")
	ft.pendingAlloc = p.AllocBlk
	ft.stateSet(fr, st, p.Var, hs, nh)
}

// globalInit adds facts about initial values of package-level variables with simple literal initialisers.

// ---------------------------------------------------------------------------
// frame execution

func (ft *FT) runFrame(fr *frame, st *State, entryGuard string) {
	fn := fr.fn
	if len(fn.Blocks) == 0 {
		ft.unsupported("function %s has no body", fn)
		return
	}
	for _, s := range ft.stack {
		if s == fn {
			ft.unsupported("recursive call to %s", fn)
			return
		}
	}
	ft.stack = append(ft.stack, fn)
	defer func() { ft.stack = ft.stack[:len(ft.stack)-1] }()
	fr.reach = map[*ssa.BasicBlock]string{}
	fr.out = map[*ssa.BasicBlock]*State{}
	fr.edge = map[[2]*ssa.BasicBlock]string{}
	fr.names = map[string][]nameRef{}
	fr.phiIn = map[*ssa.Phi]map[*ssa.BasicBlock]Val{}
	// collect debug refs
	for _, b := range fn.Blocks {
		for _, in := range b.Instrs {
			if d, ok := in.(*ssa.DebugRef); ok && d.X != nil {
				if id, ok := d.Expr.(interface{ String() string }); ok {
					_ = id
				}
				name := exprName(d)
				if name != "" {
					fr.names[name] = append(fr.names[name], nameRef{d.X, d.IsAddr, b})
				}
			}
		}
	}
	loops := findLoops(fn)
	// loop ordinals in source order
	fr.loopOrd = map[*ssa.BasicBlock]int{}
	var hs []*ssa.BasicBlock
	for h := range loops {
		hs = append(hs, h)
	}
	sort.Slice(hs, func(i, j int) bool { return loopPos(hs[i]) < loopPos(hs[j]) })
	for i, h := range hs {
		fr.loopOrd[h] = i + 1
	}
	if fr.top {
		ft.topLoops = len(hs)
	}
	order := rpo(fn)
	for _, b := range order {
		fr.curBlk = b
		fr.curIdx = 0
		var inSt *State
		var reach string
		if b == fn.Blocks[0] {
			inSt = st
			reach = entryGuard
		} else {
			var guards []string
			var sts []*State
			var preds []*ssa.BasicBlock
			for _, p := range b.Preds {
				if b.Dominates(p) { // back edge
					continue
				}
				e, ok := fr.edge[[2]*ssa.BasicBlock{p, b}]
				if !ok {
					continue // unreachable predecessor
				}
				guards = append(guards, e)
				sts = append(sts, fr.out[p])
				preds = append(preds, p)
			}
			if len(guards) == 0 {
				continue
			}
			reach = ft.fresh("reach_"+fmt.Sprint(b.Index), "Bool")
			ft.fact("(= " + reach + " " + orOf(guards) + ")")
			inSt = ft.joinStates(sts, guards)
			// phis
			for _, in := range b.Instrs {
				phi, ok := in.(*ssa.Phi)
				if !ok {
					break
				}
				fr.doPhi(phi, preds, guards, inSt)
			}
		}
		fr.reach[b] = reach
		if _, isLoop := loops[b]; isLoop {
			inSt = fr.loopHeader(b, loops[b], inSt, reach)
		}
		cur := inSt
		for i, in := range b.Instrs {
			fr.curIdx = i
			if _, ok := in.(*ssa.Phi); ok {
				continue
			}
			fr.instr(in, cur, reach)
		}
		fr.out[b] = cur
		for _, h := range fr.pendingLoopCover {
			if h == b {
				for _, su := range b.Succs {
					if loops[b][su] && su != b {
						if e, ok := fr.edge[[2]*ssa.BasicBlock{b, su}]; ok {
							ft.covers = append(ft.covers, cover{fmt.Sprintf("%s#cover(loop %d body)", ft.name, fr.loopOrd[b]), e, len(ft.facts)})
						}
					}
				}
			}
		}
		// back edges out of b: invariant preservation
		for _, s := range b.Succs {
			if s.Dominates(b) {
				fr.backEdge(b, s, cur)
			}
		}
	}
}

func loopPos(b *ssa.BasicBlock) token.Pos {
	var best token.Pos
	for _, in := range b.Instrs {
		if p := in.Pos(); p.IsValid() && (best == 0 || p < best) {
			best = p
		}
	}
	if best == 0 {
		// fall back on the If of the header
		for _, s := range b.Succs {
			for _, in := range s.Instrs {
				if p := in.Pos(); p.IsValid() && (best == 0 || p < best) {
					best = p
				}
			}
		}
	}
	return best
}

func exprName(d *ssa.DebugRef) string {
	switch e := d.Expr.(type) {
	case interface{ String() string }:
		_ = e
	}
	if id, ok := d.Expr.(*astIdent); ok {
		return id.Name
	}
	return ""
}

func (fr *frame) doPhi(phi *ssa.Phi, preds []*ssa.BasicBlock, guards []string, st *State) {
	ft := fr.ft
	b := phi.Block()
	s := ft.g.reg.SortOf(phi.Type())
	c := ft.fresh("phi_"+mangle(phi.Comment), s)
	fr.phiIn[phi] = map[*ssa.BasicBlock]Val{}
	for i, p := range preds {
		// find edge index
		for k, bp := range b.Preds {
			if bp == p {
				v := fr.val(phi.Edges[k])
				t := fr.asValue(v, fr.out[p])
				ft.fact("(=> " + guards[i] + " (= " + c + " " + t + "))")
				break
			}
		}
	}
	fr.vals[phi] = Val{T: c, Ty: phi.Type()}
}

// loopHeader: check invariants on entry, havoc, assume invariants.
func (fr *frame) loopHeader(h *ssa.BasicBlock, body map[*ssa.BasicBlock]bool, st *State, reach string) *State {
	ft := fr.ft
	ord := fr.loopOrd[h]
	invs := fr.loopInvsAt(h, ord)
	// inv-init
	for i, cl := range invs {
		env := fr.invEnv(h, st)
		var hints []string
		env.hints = &hints
		t, err := env.EvalBool(cl.E)
		if err != nil {
			ft.unsupported("loop %d invariant %q in %s: %v", ord, cl.Src, fr.fn, err)
			continue
		}
		if isPureHint(cl.E) {
			continue // hint(e) is true by definition: nothing to prove, the term is only planted at the loop head
		}
		ft.addObl(fr, "inv-init", fmt.Sprintf("%sL%d.%d", fr.tag, ord, i+1), reach, t, cl.Src, cl.Tags, hints).File = cl.File
	}
	// havoc
	nst := st.clone()
	mods := map[string]bool{}
	if ft.loopMod != nil {
		mods = ft.loopMod[h]
	}
	for _, k := range sortedStrs(mods) {
		if k == "$next" {
			continue
		}
		s := ft.ssorts[k]
		if s == "" {
			continue
		}
		nv := ft.fresh("hv_"+mangle(k), s)
		nst.vars[k] = nv
		ft.noteWrite(h, k)
		if (strings.HasPrefix(k, "H|") || strings.HasPrefix(k, "M|")) && ft.frameOK[h][k] > 0 {
			// automatic frame invariant: cells that existed before the loop (mode 2: before the function was entered)
			// are not modified by it (assumed here, asserted on every back edge)
			oldT := ft.stateGet(st, k, s)
			oldNx := ft.stateGet(st, "$next", "Int")
			if ft.frameOK[h][k] == 2 {
				oldNx = ft.stateGet(nil, "$next", "Int")
			}
			if fr.loopFrames == nil {
				fr.loopFrames = map[*ssa.BasicBlock][]loopFrame{}
			}
			fr.loopFrames[h] = append(fr.loopFrames[h], loopFrame{k, s, oldT, oldNx})
			ft.fact(fmt.Sprintf("(forall ((r Int)) (! (=> (< r %s) (= (select %s r) (select %s r))) :pattern ((select %s r))))", oldNx, nv, oldT, nv))
		}
	}
	oldNext := ft.stateGet(st, "$next", "Int")
	nn := ft.fresh("next", "Int")
	ft.fact("(>= " + nn + " " + oldNext + ")")
	nst.vars["$next"] = nn
	for _, in := range h.Instrs {
		phi, ok := in.(*ssa.Phi)
		if !ok {
			break
		}
		s := ft.g.reg.SortOf(phi.Type())
		c := ft.fresh("lv_"+mangle(phi.Comment), s)
		ft.typeInvLoop(c, phi.Type())
		fr.vals[phi] = Val{T: c, Ty: phi.Type()}
		if lo, ok := counterLowerBound(phi, body); ok {
			// automatic counter invariant: a loop variable that enters the loop as the constant lo and is only ever
			// advanced by adding a positive constant stays >= lo (induction over the iterations; no overflow: A-int)
			ft.fact("(>= " + c + " " + lo + ")")
			ft.assumed["signed integer arithmetic does not overflow (A-int): loop counters advanced by a positive constant stay above their start value"] = true
		}
	}
	for _, cl := range invs {
		env := fr.invEnv(h, nst)
		t, err := env.EvalBool(cl.E)
		if err != nil {
			continue
		}
		ft.fact("(=> " + reach + " " + t + ")")
	}
	if fr.top {
		fr.pendingLoopCover = append(fr.pendingLoopCover, h)
	}
	return nst
}

// isPureHint: the clause is just hint(e) - true by the definition of hint.
func isPureHint(e Expr) bool {
	c, ok := e.(*ECall)
	return ok && c.Fn == "hint"
}

// counterLowerBound recognises `for i := c; ...; i += k` (k > 0, c and k constants): the header phi has the constant c on
// every edge from outside the loop and phi + k on every edge from inside it.
func counterLowerBound(phi *ssa.Phi, body map[*ssa.BasicBlock]bool) (string, bool) {
	b, ok := phi.Type().Underlying().(*types.Basic)
	if !ok || b.Info()&types.IsInteger == 0 || b.Info()&types.IsUnsigned != 0 {
		return "", false // unsigned counters wrap; signed ones are assumed not to overflow (A-int)
	}
	lo := ""
	seenIn, seenOut := false, false
	for k, p := range phi.Block().Preds {
		e := phi.Edges[k]
		if body[p] {
			bo, ok := e.(*ssa.BinOp)
			if !ok || bo.Op != token.ADD {
				return "", false
			}
			var other ssa.Value
			switch {
			case bo.X == ssa.Value(phi):
				other = bo.Y
			case bo.Y == ssa.Value(phi):
				other = bo.X
			default:
				return "", false
			}
			c, ok := other.(*ssa.Const)
			if !ok || c.Value == nil || c.Value.Kind() != constant.Int || constant.Sign(c.Value) <= 0 {
				return "", false
			}
			seenIn = true
			continue
		}
		c, ok := e.(*ssa.Const)
		if !ok || c.Value == nil || c.Value.Kind() != constant.Int {
			return "", false
		}
		v := c.Value.ExactString()
		if strings.HasPrefix(v, "-") {
			v = "(- " + v[1:] + ")"
		}
		if lo != "" && lo != v {
			return "", false
		}
		lo = v
		seenOut = true
	}
	return lo, seenIn && seenOut
}

// typeInvLoop asserts what Go's type system guarantees about a value: integer ranges, also of struct fields.
func (ft *FT) typeInvLoop(term string, t types.Type) { ft.valueInv(term, t, 0) }

func (ft *FT) valueInv(term string, t types.Type, depth int) {
	switch u := t.Underlying().(type) {
	case *types.Basic:
		if lo, hi, ok := intRange(u); ok {
			ft.fact(fmt.Sprintf("(and (<= %s %s) (<= %s %s))", lo, term, term, hi))
		}
	case *types.Struct:
		if depth > 2 {
			return
		}
		si := ft.g.reg.structs[ft.g.reg.SortOf(t)]
		if si == nil {
			return
		}
		for i, f := range si.Fields {
			switch si.FTypes[i].Underlying().(type) {
			case *types.Basic, *types.Struct:
				ft.valueInv("("+f+" "+term+")", si.FTypes[i], depth+1)
			}
		}
	}
}

func (fr *frame) backEdge(src, h *ssa.BasicBlock, st *State) {
	ft := fr.ft
	ord := fr.loopOrd[h]
	guard := fr.edge[[2]*ssa.BasicBlock{src, h}]
	if guard == "" {
		return
	}
	invs := fr.loopInvsAt(h, ord)
	for _, lf := range fr.loopFrames[h] {
		cur := ft.stateGet(st, lf.name, lf.sort)
		ft.addObl(fr, "inv-pres", fmt.Sprintf("%sL%d.frame(%s)", fr.tag, ord, strings.TrimPrefix(strings.TrimPrefix(lf.name, "H|"), "M|")), guard,
			fmt.Sprintf("(forall ((r Int)) (=> (< r %s) (= (select %s r) (select %s r))))", lf.oldNext, cur, lf.old), "automatic frame invariant: the loop does not modify cells allocated before it", nil, nil)
	}
	if len(invs) == 0 {
		return
	}
	// temporarily bind header phis to the back-edge values
	saved := map[*ssa.Phi]Val{}
	for _, in := range h.Instrs {
		phi, ok := in.(*ssa.Phi)
		if !ok {
			break
		}
		saved[phi] = fr.vals[phi]
		for k, bp := range h.Preds {
			if bp == src {
				v := fr.val(phi.Edges[k])
				fr.vals[phi] = Val{T: fr.asValue(v, st), Ty: phi.Type()}
			}
		}
	}
	for i, cl := range invs {
		env := fr.invEnv(h, st)
		var hints []string
		env.hints = &hints
		t, err := env.EvalBool(cl.E)
		if err != nil {
			ft.unsupported("loop %d invariant %q: %v", ord, cl.Src, err)
			continue
		}
		if isPureHint(cl.E) {
			continue
		}
		o := ft.addObl(fr, "inv-pres", fmt.Sprintf("%sL%d.%d", fr.tag, ord, i+1), guard, t, cl.Src, cl.Tags, hints)
		o.File = cl.File
	}
	for phi, v := range saved {
		fr.vals[phi] = v
	}
}

// invEnv: environment for loop invariants at header h.
func (fr *frame) invEnv(h *ssa.BasicBlock, st *State) *Env {
	env := fr.specEnv(st, fr.ft.entry, nil)
	// names from debug refs whose value dominates h (or is a phi of h)
	for name, refs := range fr.names {
		if _, isParam := env.vars[name]; isParam {
			// parameters may be reassigned; prefer phi at this header if present
		}
		var cands []nameRef
		seen := map[ssa.Value]bool{}
		for _, r := range refs {
			if seen[r.v] {
				continue
			}
			seen[r.v] = true
			cands = append(cands, r)
		}
		var pick *nameRef
		// 1. phi at this header
		for i, c := range cands {
			if phi, ok := c.v.(*ssa.Phi); ok && phi.Block() == h {
				pick = &cands[i]
			}
		}
		if pick == nil {
			var doms []nameRef
			for _, c := range cands {
				if fr.dominatesHeader(c.v, h) {
					doms = append(doms, c)
				}
			}
			// prefer the latest dominating definition: the one dominated by all others
			for i := range doms {
				ok := true
				for j := range doms {
					if i != j && !fr.valDominates(doms[j].v, doms[i].v) {
						ok = false
					}
				}
				if ok {
					pick = &doms[i]
				}
			}
		}
		if pick == nil {
			continue
		}
		v, ok := fr.vals[pick.v]
		if !ok {
			if _, isConst := pick.v.(*ssa.Const); isConst {
				v = fr.val(pick.v)
			} else {
				continue
			}
		}
		if pick.isAddr {
			// address of a variable: expose its content
			pt, ok := pick.v.Type().Underlying().(*types.Pointer)
			if !ok {
				continue
			}
			pl := fr.placeOf(v, pt.Elem())
			if pl == nil {
				continue
			}
			env.vars[name] = SV{fr.ft.load(pl, st), goT(pt.Elem())}
		} else {
			env.vars[name] = SV{fr.plain(v, st), goT(pick.v.Type())}
		}
	}
	// variables that live in a stack cell for their whole life (named results of functions with defer, address-taken
	// locals) and were not named by a debug reference above: the Alloc carries the variable's name
	for _, b := range fr.fn.Blocks {
		for _, in := range b.Instrs {
			al, ok := in.(*ssa.Alloc)
			if !ok || al.Comment == "" || strings.ContainsAny(al.Comment, " .()&") {
				continue
			}
			if _, bound := env.vars[al.Comment]; bound {
				continue
			}
			if !fr.dominatesHeader(al, h) {
				continue
			}
			v, ok := fr.vals[al]
			if !ok {
				continue
			}
			pt, ok := al.Type().Underlying().(*types.Pointer)
			if !ok {
				continue
			}
			if pl := fr.placeOf(v, pt.Elem()); pl != nil {
				env.vars[al.Comment] = SV{fr.ft.load(pl, st), goT(pt.Elem())}
			}
		}
	}
	// map range: $rem = the set of keys not yet visited (ghost)
	for _, in := range h.Instrs {
		if nx, ok := in.(*ssa.Next); ok && !nx.IsString {
			if rng, ok := nx.Iter.(*ssa.Range); ok {
				if name, ok := fr.iterName()[rng]; ok {
					if mt, ok := rng.X.Type().Underlying().(*types.Map); ok {
						ks, _, _ := fr.mapSorts(mt)
						rs := "(Array " + ks + " Bool)"
						env.vars["$rem"] = SV{fr.ft.stateGet(st, name, rs), &SType{MapK: goT(mt.Key()), MapV: tBool}}
					}
				}
			}
		}
	}
	// range index of this header
	for _, in := range h.Instrs {
		phi, ok := in.(*ssa.Phi)
		if !ok {
			break
		}
		if v, ok := fr.vals[phi]; ok {
			if phi.Comment == "rangeindex" {
				// $i = number of completed iterations = index of the next element
				env.vars["$i"] = SV{"(+ " + v.T + " 1)", tInt}
				// $range = the slice being ranged over (found as the operand indexed by rangeindex+1)
				for _, ref := range *phi.Referrers() {
					bo, ok := ref.(*ssa.BinOp)
					if !ok {
						continue
					}
					for _, r2 := range *bo.Referrers() {
						if ia, ok := r2.(*ssa.IndexAddr); ok && ia.Index == ssa.Value(bo) {
							if xv, ok := fr.vals[ia.X]; ok {
								env.vars["$range"] = SV{fr.plain(xv, st), goT(ia.X.Type())}
							}
						}
					}
				}
			} else if phi.Comment != "" {
				env.vars[phi.Comment] = SV{fr.plain(v, st), goT(phi.Type())}
			}
		}
	}
	return env
}

func (fr *frame) dominatesHeader(v ssa.Value, h *ssa.BasicBlock) bool {
	switch x := v.(type) {
	case *ssa.Parameter, *ssa.Const, *ssa.FreeVar, *ssa.Global:
		return true
	case ssa.Instruction:
		b := x.Block()
		if b == h && fr.atCall {
			// environment of a call site inside h (callback-loop invariants): values already computed in this block
			_, done := fr.vals[v]
			return done
		}
		return b != h && b.Dominates(h)
	}
	return false
}

func (fr *frame) valDominates(a, b ssa.Value) bool {
	ai, ok1 := a.(ssa.Instruction)
	bi, ok2 := b.(ssa.Instruction)
	if !ok1 {
		return true
	}
	if !ok2 {
		return false
	}
	if ai.Block() == bi.Block() {
		for _, in := range ai.Block().Instrs {
			if in == ai {
				return true
			}
			if in == bi {
				return false
			}
		}
	}
	return ai.Block().Dominates(bi.Block())
}

func ftName(fn *ssa.Function, c *Contract) string {
	if c != nil && c.SpecDyn != nil {
		return c.Key
	}
	return fn.String()
}

var autoRangeInv = func() *Clause {
	e, err := ParseExpr("0 <= $i && $i <= len($range)")
	if err != nil {
		panic(err)
	}
	return &Clause{Src: "0 <= $i && $i <= len($range)   (automatic: range loop over a slice)", E: e, Name: "auto"}
}()

// loopInvsAt adds the automatic bound invariant of a range-over-slice loop to the annotated invariants.
func (fr *frame) loopInvsAt(h *ssa.BasicBlock, ord int) []*Clause {
	invs := fr.loopInvs(ord)
	for _, in := range h.Instrs {
		phi, ok := in.(*ssa.Phi)
		if !ok {
			break
		}
		if phi.Comment == "rangeindex" {
			// only when the ranged slice can be identified
			for _, ref := range *phi.Referrers() {
				if bo, ok := ref.(*ssa.BinOp); ok {
					for _, r2 := range *bo.Referrers() {
						if ia, ok := r2.(*ssa.IndexAddr); ok && ia.Index == ssa.Value(bo) {
							if _, isSlice := ia.X.Type().Underlying().(*types.Slice); isSlice {
								return append([]*Clause{autoRangeInv}, invs...)
							}
						}
					}
				}
			}
		}
	}
	return invs
}

// adoptedInvs: a loop of an inlined callee without a contract adopts an invariant group of the function under proof that
// no longer finds its loop there (the contract names loop k, the function has fewer than k loops): the situation after a
// loop has been moved, with its variable names, into a new helper. The clauses are proved for the loop that adopts them
// (inv-init / inv-pres obligations as usual), so adopting the wrong group cannot make anything provable that is false;
// clauses that name variables the helper does not have make the function UNDECIDED, as any uninterpretable clause does.
func (fr *frame) adoptedInvs(ord int) []*Clause {
	ft := fr.ft
	if fr.top || ft.c == nil || len(ft.c.Loops) == 0 {
		return nil
	}
	key := fmt.Sprintf("%s/%d", fr.fn.String(), ord)
	if k, ok := ft.adopted[key]; ok {
		return ft.c.Loops[k]
	}
	var orphans []int
	for k := range ft.c.Loops {
		if k > ft.topLoops && len(ft.c.Loops[k]) > 0 {
			orphans = append(orphans, k)
		}
	}
	sort.Ints(orphans)
	if ft.adopted == nil {
		ft.adopted = map[string]int{}
	}
	used := map[int]bool{}
	for _, k := range ft.adopted {
		used[k] = true
	}
	for _, k := range orphans {
		if !used[k] {
			ft.adopted[key] = k
			return ft.c.Loops[k]
		}
	}
	return nil
}

func (fr *frame) loopInvs(ord int) []*Clause {
	if fr.c == nil {
		return fr.adoptedInvs(ord)
	}
	invs := fr.c.Loops[ord]
	if len(invs) == 0 && fr.c.SpecDyn != nil {
		if base := fr.ft.g.db.Contracts[fr.c.BaseKey]; base != nil {
			invs = base.Loops[ord]
		}
	}
	return invs
}
