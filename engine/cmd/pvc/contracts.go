package main

// Contract database: reads //@ lines from zz_contracts_verif.go files in /repo
// and *.spec files under /verif/contracts.

import (
	"fmt"
	"go/types"
	"regexp"
	"os"
	"path/filepath"
	"sort"
	"strconv"
	"strings"
)

type Clause struct {
	Src  string
	E    Expr
	Tags []string // property ids, empty = all
	File string
	Line int
	Name string // optional label
}

type Contract struct {
	Key       string
	File      string
	External  bool
	Requires  []*Clause
	Ensures   []*Clause
	Assigns   []string
	HasAssign bool
	Loops     map[int][]*Clause
	Paginates map[int][]*Clause // invariants of the callback loop of the N-th query.Paginate call (source order)
	Covers    []*Clause // exit-state conditions that must be satisfiable (vacuity guards written by the contract author)
	Inline    bool
	DynInline bool // inline at call sites where an interface argument has a statically known dynamic type
	NoInline  bool
	Trusted   bool
	Params    []string // optional explicit parameter names (positional)
	Results   []string // optional explicit result names
	MayPanic  bool     // function is allowed to panic (no panic obligations) - never set for entry points
	Havoc     []string // extra state havocked by an external
	Fresh     bool
	Det       bool
	Used      bool
	SpecDynSrc string   // "@T" specialisation: the contract holds for calls whose interface argument has dynamic type T
	SpecDyn    types.Type
	BaseKey    string
	Uses      []string // lemmas / definitions from other contract files made visible to this function's proof
}

type SpecFunc struct {
	Name   string
	Params []QVar
	Ret    string
	Body   Expr // nil = uninterpreted
	Opaque bool // uninterpreted symbol + definitional axiom (usable in triggers)
	BodySrc string
	File   string
}

type Axiom struct {
	Name  string
	E     Expr
	Src   string
	File  string
	Lemma bool
	Ind   string // induction variable
	From  string // lower bound expression source
	Tags  []string
	Pkg   string
	Using []Expr // proof-only hints: terms planted in the proof obligation (not part of the exported statement)
}

type GhostVar struct {
	Name string
	Type string
	File string
}

type SpecDB struct {
	Contracts map[string]*Contract
	Funcs     map[string]*SpecFunc
	Axioms    []*Axiom
	Ghosts    map[string]*GhostVar
	GhostOrd  []string
	Imports   map[string]map[string]string // file -> alias -> path
	FilePkg   map[string]string            // contract file -> package path
	Files     []string
	Witness   map[string][]string
	FileUses  map[string][]string // lemmas/definitions of other files visible to the lemma proofs of a file
}

func NewSpecDB() *SpecDB {
	return &SpecDB{Contracts: map[string]*Contract{}, Funcs: map[string]*SpecFunc{}, Ghosts: map[string]*GhostVar{},
		Imports: map[string]map[string]string{}, FilePkg: map[string]string{}, Witness: map[string][]string{}, FileUses: map[string][]string{}}
}

var clauseKeywords = map[string]bool{"import": true, "ghost": true, "spec": true, "def": true, "axiom": true, "lemma": true,
	"func": true, "extern": true, "requires": true, "ensures": true, "cover": true, "assigns": true, "loop": true, "paginate": true, "inline": true,
	"noinline": true, "dyninline": true, "trusted": true, "maypanic": true, "params": true, "results": true, "havoc": true, "det": true, "fresh": true, "uses": true, "lemmauses": true}

type rawLine struct {
	text string
	line int
}

// LoadFile parses one contract file. pkgPath is the Go package the file belongs to ("" for external spec files).
func (db *SpecDB) LoadFile(path, pkgPath string) error {
	data, err := os.ReadFile(path)
	if err != nil {
		return err
	}
	db.Files = append(db.Files, path)
	db.FilePkg[path] = pkgPath
	db.Imports[path] = map[string]string{}
	var stmts []rawLine
	for i, ln := range strings.Split(string(data), "\n") {
		t := strings.TrimSpace(ln)
		if !strings.HasPrefix(t, "//@") {
			continue
		}
		body := strings.TrimSpace(t[3:])
		if body == "" {
			continue
		}
		if strings.HasPrefix(body, "//") { // commented-out contract line
			continue
		}
		first := body
		if j := strings.IndexAny(body, " \t("); j >= 0 {
			first = body[:j]
		}
		if clauseKeywords[first] || len(stmts) == 0 {
			stmts = append(stmts, rawLine{body, i + 1})
		} else {
			stmts[len(stmts)-1].text += " " + body
		}
	}
	var cur *Contract
	for _, st := range stmts {
		if err := db.stmt(path, pkgPath, st, &cur); err != nil {
			return fmt.Errorf("%s:%d: %v", path, st.line, err)
		}
	}
	return nil
}

func splitTags(s string) ([]string, string, string) {
	s = strings.TrimSpace(s)
	var tags []string
	name := ""
	if strings.HasPrefix(s, "[") {
		j := strings.Index(s, "]")
		for _, t := range strings.Split(s[1:j], ",") {
			t = strings.TrimSpace(t)
			if t != "" {
				tags = append(tags, t)
			}
		}
		s = strings.TrimSpace(s[j+1:])
	}
	// optional label  name:  (identifier followed by ':' but not '::' or ':=')
	if j := strings.Index(s, ":"); j > 0 && j+1 < len(s) && s[j+1] != ':' && s[j+1] != '=' {
		cand := strings.TrimSpace(s[:j])
		ok := cand != ""
		for _, c := range cand {
			if !(c == '_' || c >= 'a' && c <= 'z' || c >= 'A' && c <= 'Z' || c >= '0' && c <= '9') {
				ok = false
			}
		}
		if ok {
			name = cand
			s = strings.TrimSpace(s[j+1:])
		}
	}
	return tags, name, s
}

func (db *SpecDB) stmt(path, pkgPath string, st rawLine, cur **Contract) error {
	body := st.text
	kw := body
	rest := ""
	if j := strings.IndexAny(body, " \t"); j >= 0 {
		kw, rest = body[:j], strings.TrimSpace(body[j+1:])
	}
	mkClause := func(src string) (*Clause, error) {
		tags, name, s := splitTags(src)
		e, err := ParseExpr(s)
		if err != nil {
			return nil, err
		}
		return &Clause{Src: s, E: e, Tags: tags, File: path, Line: st.line, Name: name}, nil
	}
	switch kw {
	case "import":
		f := strings.Fields(rest)
		if len(f) != 2 {
			return fmt.Errorf("import alias \"path\"")
		}
		db.Imports[path][f[0]] = strings.Trim(f[1], "\"")
	case "ghost":
		f := strings.Fields(rest)
		if len(f) < 3 || f[0] != "var" {
			return fmt.Errorf("ghost var name type")
		}
		if _, dup := db.Ghosts[f[1]]; !dup {
			db.Ghosts[f[1]] = &GhostVar{Name: f[1], Type: strings.Join(f[2:], " "), File: path}
			db.GhostOrd = append(db.GhostOrd, f[1])
		}
	case "spec", "def":
		// spec name(p T, q U) R [:= body]   (macro)      def name(...) R := body   (symbol + definitional axiom)
		i := strings.Index(rest, "(")
		if i < 0 {
			return fmt.Errorf("spec syntax")
		}
		name := strings.TrimSpace(rest[:i])
		depth, j := 0, i
		for ; j < len(rest); j++ {
			if rest[j] == '(' {
				depth++
			}
			if rest[j] == ')' {
				depth--
				if depth == 0 {
					break
				}
			}
		}
		params := rest[i+1 : j]
		after := strings.TrimSpace(rest[j+1:])
		sf := &SpecFunc{Name: name, File: path}
		for _, p := range splitTop(params, ',') {
			p = strings.TrimSpace(p)
			if p == "" {
				continue
			}
			k := strings.IndexAny(p, " \t")
			if k < 0 {
				return fmt.Errorf("spec param %q needs a type", p)
			}
			sf.Params = append(sf.Params, QVar{p[:k], strings.TrimSpace(p[k+1:])})
		}
		if k := strings.Index(after, ":="); k >= 0 {
			sf.Ret = strings.TrimSpace(after[:k])
			e, err := ParseExpr(after[k+2:])
			if err != nil {
				return err
			}
			sf.Body = e
			sf.BodySrc = after[k+2:]
		} else {
			sf.Ret = after
		}
		if _, dup := db.Funcs[name]; dup {
			return fmt.Errorf("duplicate spec function %s", name)
		}
		db.Funcs[name] = sf
		if kw == "def" {
			if sf.Body == nil {
				return fmt.Errorf("def needs a body")
			}
			sf.Opaque = true
			var args []Expr
			for _, p := range sf.Params {
				args = append(args, &EIdent{Name: p.Name})
			}
			call := &ECall{Fn: name, Args: args}
			op := "=="
			if strings.TrimSpace(sf.Ret) == "bool" {
				op = "<==>"
			}
			db.Axioms = append(db.Axioms, &Axiom{Name: "def_" + name, File: path, Pkg: pkgPath, Src: "definition of " + name,
				E: &EQuant{Forall: true, Vars: sf.Params, Trig: [][]Expr{{call}}, Body: &EBin{Op: op, L: call, R: sf.Body}}})
		}
	case "axiom", "lemma":
		// [tags] name: expr     lemma may be "name by induction k from e: expr"
		tags, lname, s := splitTags(rest)
		var head, exprSrc string
		if lname != "" {
			head, exprSrc = lname, s
		} else {
			j := strings.Index(s, ":")
			for j >= 0 && j+1 < len(s) && (s[j+1] == ':' || s[j+1] == '=') {
				k := strings.Index(s[j+2:], ":")
				if k < 0 {
					j = -1
					break
				}
				j = j + 2 + k
			}
			if j < 0 {
				return fmt.Errorf("axiom/lemma needs 'name: expr'")
			}
			head, exprSrc = strings.TrimSpace(s[:j]), strings.TrimSpace(s[j+1:])
		}
		ax := &Axiom{File: path, Lemma: kw == "lemma", Src: exprSrc, Tags: tags, Pkg: pkgPath}
		hf := strings.Fields(head)
		ax.Name = hf[0]
		if len(hf) >= 4 && hf[1] == "by" && hf[2] == "induction" {
			ax.Ind = hf[3]
			ax.From = "0"
			if len(hf) >= 6 && hf[4] == "from" {
				ax.From = strings.Join(hf[5:], " ")
			}
		}
		if k := strings.Index(exprSrc, " using "); k >= 0 {
			for _, u := range strings.Split(exprSrc[k+7:], ";") {
				ue, err := ParseExpr(u)
				if err != nil {
					return err
				}
				ax.Using = append(ax.Using, ue)
			}
			exprSrc = exprSrc[:k]
			ax.Src = exprSrc
		}
		e, err := ParseExpr(exprSrc)
		if err != nil {
			return err
		}
		ax.E = e
		db.Axioms = append(db.Axioms, ax)
	case "func", "extern":
		specDyn := ""
		if i := strings.Index(rest, "@"); i >= 0 {
			specDyn = strings.TrimSpace(rest[i+1:])
			rest = strings.TrimSpace(rest[:i])
		}
		key := rest
		if j := strings.Index(rest, "."); kw == "func" && j > 0 && !strings.HasPrefix(rest, "(") {
			// alias.Func: a function of an imported package
			if path, ok := db.Imports[path][rest[:j]]; ok {
				key = path + "." + rest[j+1:]
			}
		} else if kw == "func" && pkgPath != "" {
			// in-package name:  f   or (T).M  or (*T).M
			if strings.HasPrefix(rest, "(*") {
				key = "(*" + pkgPath + "." + rest[2:]
			} else if strings.HasPrefix(rest, "(") {
				key = "(" + pkgPath + "." + rest[1:]
			} else {
				key = pkgPath + "." + rest
			}
		}
		base := key
		if specDyn != "" {
			key = key + "@" + specDyn + "@" + path
		}
		c := db.Contracts[key]
		if c == nil {
			c = &Contract{Key: key, File: path, Loops: map[int][]*Clause{}, External: kw == "extern", SpecDynSrc: specDyn, BaseKey: base}
			db.Contracts[key] = c
		}
		*cur = c
	case "requires", "ensures", "cover":
		if *cur == nil {
			return fmt.Errorf("%s outside func", kw)
		}
		cl, err := mkClause(rest)
		if err != nil {
			return err
		}
		if kw == "requires" {
			(*cur).Requires = append((*cur).Requires, cl)
		} else if kw == "cover" {
			(*cur).Covers = append((*cur).Covers, cl)
		} else {
			(*cur).Ensures = append((*cur).Ensures, cl)
		}
	case "assigns":
		if *cur == nil {
			return fmt.Errorf("assigns outside func")
		}
		(*cur).HasAssign = true
		for _, a := range strings.Split(rest, ",") {
			a = strings.TrimSpace(a)
			if a != "" && a != "\\nothing" && a != "nothing" {
				(*cur).Assigns = append((*cur).Assigns, a)
			}
		}
	case "havoc":
		for _, a := range strings.Split(rest, ",") {
			if a = strings.TrimSpace(a); a != "" {
				(*cur).Havoc = append((*cur).Havoc, a)
			}
		}
	case "loop":
		f := strings.Fields(rest)
		if len(f) < 3 || f[1] != "invariant" {
			return fmt.Errorf("loop N invariant expr")
		}
		n, err := strconv.Atoi(f[0])
		if err != nil {
			return err
		}
		idx := strings.Index(rest, "invariant")
		cl, err := mkClause(rest[idx+len("invariant"):])
		if err != nil {
			return err
		}
		(*cur).Loops[n] = append((*cur).Loops[n], cl)
	case "paginate":
		f := strings.Fields(rest)
		if len(f) < 3 || f[1] != "invariant" {
			return fmt.Errorf("paginate N invariant expr")
		}
		n, err := strconv.Atoi(f[0])
		if err != nil {
			return err
		}
		idx := strings.Index(rest, "invariant")
		cl, err := mkClause(rest[idx+len("invariant"):])
		if err != nil {
			return err
		}
		if (*cur).Paginates == nil {
			(*cur).Paginates = map[int][]*Clause{}
		}
		(*cur).Paginates[n] = append((*cur).Paginates[n], cl)
	case "inline":
		(*cur).Inline = true
	case "dyninline":
		(*cur).DynInline = true
	case "noinline":
		(*cur).NoInline = true
	case "trusted":
		(*cur).Trusted = true
	case "maypanic":
		(*cur).MayPanic = true
	case "det":
		(*cur).Det = true
	case "fresh":
		(*cur).Fresh = true
	case "lemmauses":
		db.FileUses[path] = append(db.FileUses[path], strings.Fields(strings.ReplaceAll(rest, ",", " "))...)
	case "uses":
		(*cur).Uses = append((*cur).Uses, strings.Fields(strings.ReplaceAll(rest, ",", " "))...)
	case "params":
		(*cur).Params = strings.Fields(strings.ReplaceAll(rest, ",", " "))
	case "results":
		(*cur).Results = strings.Fields(strings.ReplaceAll(rest, ",", " "))
	default:
		return fmt.Errorf("unknown directive %q", kw)
	}
	return nil
}

func splitTop(s string, sep byte) []string {
	var out []string
	depth, start := 0, 0
	for i := 0; i < len(s); i++ {
		switch s[i] {
		case '(', '[', '{':
			depth++
		case ')', ']', '}':
			depth--
		default:
			if s[i] == sep && depth == 0 {
				out = append(out, s[start:i])
				start = i + 1
			}
		}
	}
	out = append(out, s[start:])
	return out
}

// LoadAll reads every zz_contracts_verif.go under repo and every *.spec under specDir.
func (db *SpecDB) LoadAll(repo, specDir string, pkgOfDir func(dir string) string) error {
	var files []string
	filepath.Walk(repo, func(p string, info os.FileInfo, err error) error {
		if err != nil {
			return nil
		}
		if info.IsDir() && (info.Name() == ".git" || info.Name() == "node_modules") {
			return filepath.SkipDir
		}
		if !info.IsDir() && info.Name() == "zz_contracts_verif.go" {
			files = append(files, p)
		}
		return nil
	})
	sort.Strings(files)
	specs, _ := filepath.Glob(filepath.Join(specDir, "*.spec"))
	sort.Strings(specs)
	for _, f := range specs {
		if err := db.LoadFile(f, ""); err != nil {
			return err
		}
	}
	for _, f := range files {
		if err := db.LoadFile(f, pkgOfDir(filepath.Dir(f))); err != nil {
			return err
		}
	}
	return nil
}

var identRe = regexp.MustCompile(`[A-Za-z_][A-Za-z0-9_]*`)

// GhostRefs: ghost variables a contract text refers to, directly or through spec-function bodies.
func (db *SpecDB) GhostRefs(src string, seen map[string]bool, out map[string]bool) {
	for _, id := range identRe.FindAllString(src, -1) {
		if _, ok := db.Ghosts[id]; ok {
			out[id] = true
		}
		if sf, ok := db.Funcs[id]; ok && sf.BodySrc != "" && !seen[id] {
			seen[id] = true
			db.GhostRefs(sf.BodySrc, seen, out)
		}
	}
}
