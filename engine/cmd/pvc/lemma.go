package main

// Lemmas: proved from the axioms and lemmas that precede them; optionally by induction.

import "fmt"

func (g *Gen) newPseudoFT(name string) *FT {
	return &FT{g: g, name: name, ssorts: map[string]string{}, assumed: map[string]bool{}, havoced: map[string]bool{}, inlined: map[string]bool{},
		modular: map[string]bool{}, kindCnt: map[string]int{}, written: nil, init0: map[string]string{}, axUsed: map[string]bool{}, pass: 2}
}

// LemmaFT returns one pseudo-translation per lemma (filtered by name set; nil = all).
func (g *Gen) LemmaFT(only map[string]bool) []*FT {
	var out []*FT
	for _, ax := range g.db.Axioms {
		if !ax.Lemma || (only != nil && !only[ax.Name]) {
			continue
		}
		ft := g.newPseudoFT("lemma:" + ax.Name)
		ft.axUpTo = ax
		ft.lemma = ax
		func() {
			defer func() {
				if r := recover(); r != nil {
					if ee, ok := r.(evalErr); ok {
						ft.unsupported("lemma %s: %s", ax.Name, ee.msg)
						return
					}
					panic(r)
				}
			}()
			env := &Env{ft: ft, vars: map[string]SV{}, file: ax.File, bound: map[string]bool{}}
			if ax.Pkg != "" {
				env.pkg = g.findPackage(ax.Pkg)
			}
			if ax.Ind == "" {
				var hints []string
				env.hints = &hints
				goalE := ax.E
				if len(ax.Using) > 0 {
					q, ok := ax.E.(*EQuant)
					if !ok || !q.Forall {
						ft.unsupported("lemma %s: 'using' needs a top-level forall", ax.Name)
						return
					}
					var hs Expr
					for _, u := range ax.Using {
						h := &ECall{Fn: "hint", Args: []Expr{u}}
						if hs == nil {
							hs = h
						} else {
							hs = &EBin{Op: "&&", L: hs, R: h}
						}
					}
					goalE = &EQuant{Forall: true, Vars: q.Vars, Body: &EBin{Op: "==>", L: hs, R: q.Body}}
				}
				t, err := env.EvalBool(goalE)
				if err != nil {
					ft.unsupported("lemma %s: %v", ax.Name, err)
					return
				}
				ft.addObl(nil, "lemma", "", "true", t, ax.Src, ax.Tags, hints)
				return
			}
			q, ok := ax.E.(*EQuant)
			if !ok || !q.Forall {
				ft.unsupported("lemma %s: induction needs a top-level forall", ax.Name)
				return
			}
			var rest []QVar
			found := false
			for _, v := range q.Vars {
				if v.Name == ax.Ind {
					found = true
				} else {
					rest = append(rest, v)
				}
			}
			if !found {
				ft.unsupported("lemma %s: induction variable %s not quantified", ax.Name, ax.Ind)
				return
			}
			var inner Expr = q.Body
			if len(rest) > 0 {
				inner = &EQuant{Forall: true, Vars: rest, Body: q.Body}
			}
			from, err := ParseExpr(ax.From)
			if err != nil {
				ft.unsupported("lemma %s: %v", ax.Name, err)
				return
			}
			fv, err := env.Eval(from)
			if err != nil {
				ft.unsupported("lemma %s: %v", ax.Name, err)
				return
			}
			// base
			env.vars[ax.Ind] = SV{fv.T, tInt}
			bt, err := env.EvalBool(inner)
			if err != nil {
				ft.unsupported("lemma %s base: %v", ax.Name, err)
				return
			}
			ft.addObl(nil, "lemma-base", "", "true", bt, ax.Src, ax.Tags, nil)
			ft.facts = ft.facts[:len(ft.facts)-1] // the base case is not an assumption of the step
			// step
			k0 := ft.fresh("ind_"+ax.Ind, "Int")
			env.vars[ax.Ind] = SV{k0, tInt}
			hyp, err := env.EvalBool(inner)
			if err != nil {
				ft.unsupported("lemma %s step: %v", ax.Name, err)
				return
			}
			ft.fact(fmt.Sprintf("(>= %s %s)", k0, fv.T))
			ft.fact(hyp)
			env.vars[ax.Ind] = SV{"(+ " + k0 + " 1)", tInt}
			goal, err := env.EvalBool(inner)
			if err != nil {
				ft.unsupported("lemma %s step: %v", ax.Name, err)
				return
			}
			ft.addObl(nil, "lemma-step", "", "true", goal, ax.Src, ax.Tags, nil)
		}()
		out = append(out, ft)
	}
	return out
}

// lemmaAsAxiom: the statement usable by later proofs (for induction lemmas, guarded by k >= from).
func lemmaStatement(ax *Axiom) Expr {
	if ax.Ind == "" {
		return ax.E
	}
	q := ax.E.(*EQuant)
	from, _ := ParseExpr(ax.From)
	guard := &EBin{Op: ">=", L: &EIdent{Name: ax.Ind}, R: from}
	return &EQuant{Forall: true, Vars: q.Vars, Trig: q.Trig, Body: &EBin{Op: "==>", L: guard, R: q.Body}}
}
